// Fixture for T-ASMLINE-PREDICATE: one predicate that forgets inline assembly (must be reported)
// and one that does not (must be accepted).  Never compiled; parsed by the extractor only.
pub enum AsmLine { Label(String), Instruction(u8), Inline(String, u32), Comment(String), Dummy }
pub struct AssemblyCode { code: Vec<AsmLine> }
impl AssemblyCode {
    pub fn fixture_bad_is_empty(&self) -> bool {
        !self.code.iter().any(|c| matches!(c, AsmLine::Instruction(_) | AsmLine::Label(_)))
    }
    pub fn fixture_good_is_empty(&self) -> bool {
        !self.code.iter().any(|c| matches!(c, AsmLine::Instruction(_) | AsmLine::Inline(_, _) | AsmLine::Label(_)))
    }
}
