"""C09: escape table, NUL termination, single decoder. C10: calculator operators, folding, sizeof siblings."""
import json
import os

from astlib import AnchorMissing, expr_text, pat_text, walk, VERIF, body_is_panic
from core import rule

with open(os.path.join(VERIF, "ref", "c_escapes.json")) as _fh:
    ESC = json.load(_fh)["escapes"]


def pushed_code(e):
    """v.push(char::from_u32(N).unwrap()) -> N ; v.push(a) -> 'self' ; else None"""
    for n in walk(e):
        if n.get("k") == "mcall" and n["method"] == "push" and n["args"]:
            a = n["args"][0]
            t = expr_text(a)
            for m in walk(a):
                if m.get("k") == "call" and expr_text(m["func"]).endswith("from_u32") and m["args"] and m["args"][0].get("k") == "lit":
                    return m["args"][0]["v"]
            if a.get("k") == "lit" and a["ty"] == "char":
                return ord(a["v"])
            if a.get("k") == "cast" and a["e"].get("k") == "lit":
                return a["e"]["v"]
            return "bound:" + t
    return None


@rule("T-ESC", floor=9,
      text="the escape decoder maps \\0 \\n \\r \\t \\a \\b \\f \\v to their ASCII codes (ref/c_escapes.json) and every other escaped character (\\\\ \\\" \\') to itself; unescaped characters are copied unchanged")
def t_esc(facts, res, tier):
    fn = facts.fn("compile_quoted_string_ex", "")
    # the match on the character following a backslash
    table = {}
    default = None
    mnode = None
    for m in walk(fn["body"]):
        if m.get("k") != "match":
            continue
        t = {}
        d = None
        for arm in m["arms"]:
            p = arm["pat"]
            if p.get("k") == "tstruct" and p["segs"][-1] == "Some" and p["elems"]:
                inner = p["elems"][0]
                if inner.get("k") == "lit" and isinstance(inner["v"], str) and len(inner["v"]) == 1:
                    t[inner["v"]] = pushed_code(arm["body"])
                elif inner.get("k") == "ident":
                    d = (inner["name"], pushed_code(arm["body"]))
        if t:
            table, default, mnode = t, d, m
    if not table:
        raise AnchorMissing("compile_quoted_string_ex: escape match not found")
    for ch, code in sorted(ESC.items()):
        key = "T-ESC:\\%s" % ch
        if ch in table:
            got = table[ch]
            res.inst(key, True, {"escape": "\\" + ch, "decoded": got, "c": code})
            if got != code:
                res.fail(key, facts.where(fn, mnode), "escape \\%s decodes to %s; C says %d" % (ch, got, code))
        else:
            # falls to the default arm: decoded as the character itself
            selfcode = ord(ch)
            res.inst(key, True, {"escape": "\\" + ch, "decoded": "itself (%d)" % selfcode, "c": code})
            if default is None or default[1] != "bound:" + default[0]:
                res.fail(key, facts.where(fn, mnode), "escape \\%s has no arm and the default arm does not push the character itself" % ch)
            elif selfcode != code:
                res.fail(key, facts.where(fn, mnode), "escape \\%s is not decoded (falls to the default arm, giving %d); C says %d" % (ch, selfcode, code))
    for ch in sorted(set(table) - set(ESC)):
        key = "T-ESC:\\%s" % ch
        res.inst(key)
        res.fail(key, facts.where(fn, mnode), "escape \\%s is given a special meaning (%s) that C does not define" % (ch, table[ch]))
    # unescaped characters are copied
    key = "T-ESC:plain"
    res.inst(key)
    copied = False
    for n in walk(fn["body"]):
        if n.get("k") == "if" and "else" in n and "'\\\\'" in expr_text(n["cond"]).replace('"', "'"):
            pc = pushed_code(n["else"])
            copied = isinstance(pc, str) and pc.startswith("bound:")
    if not copied:
        res.fail(key, facts.where(fn), "characters that are not escapes are not copied unchanged")
    res.exhaustive = True


@rule("T-STR-NUL", floor=3,
      text="compile_quoted_string decodes every fragment through compile_quoted_string_ex, in order, and appends exactly one NUL after the loop and nothing after it; character constants use the same decoder")
def t_str_nul(facts, res, tier):
    fn = facts.fn("compile_quoted_string", "CompilerState")
    stmts = fn["body"]["stmts"]
    loops = [i for i, s in enumerate(stmts) if s.get("k") == "for"]
    res.inst("T-STR-NUL:loop")
    if len(loops) != 1:
        res.fail("T-STR-NUL:loop", facts.where(fn), "expected one concatenation loop, found %d" % len(loops))
        return
    li = loops[0]
    body = stmts[li]["body"]
    calls = [n for n in walk(body) if n.get("k") == "call" and expr_text(n["func"]).endswith("compile_quoted_string_ex")]
    pushes = [n for n in walk(body) if n.get("k") == "mcall" and n["method"] in ("push_str", "push")]
    if len(calls) != 1 or len(pushes) != 1 or pushes[0]["method"] != "push_str":
        res.fail("T-STR-NUL:loop", facts.where(fn, stmts[li]), "each fragment must be decoded once by compile_quoted_string_ex and appended once")
    after = stmts[li + 1:]
    nul = [s for s in after if s.get("k") == "mcall" and s["method"] == "push"]
    res.inst("T-STR-NUL:nul", True, {"after_loop": [expr_text(s) for s in after]})
    if len(nul) != 1 or pushed_code(nul[0]) != 0:
        res.fail("T-STR-NUL:nul", facts.where(fn), "exactly one NUL must be appended after the fragments (found %d pushes)" % len(nul))
    def is_result(s):
        # the tail: `v` or `Ok(v)`
        if s.get("k") == "path" and not s.get("semi"):
            return True
        return s.get("k") == "call" and not s.get("semi") and expr_text(s["func"]) == "Ok" and len(s["args"]) == 1 and s["args"][0].get("k") == "path"
    others = [s for s in after if s not in nul and not is_result(s)]
    if others:
        res.fail("T-STR-NUL:nul", facts.where(fn), "statements other than the NUL push follow the concatenation: %s" % [expr_text(s) for s in others])
    # who calls the decoder
    callers = {}
    for f in facts.fns:
        for n in walk(f["body"]):
            if n.get("k") == "call" and expr_text(n["func"]).endswith("compile_quoted_string_ex"):
                callers.setdefault(f["name"], 0)
                callers[f["name"]] += 1
    res.inst("T-STR-NUL:decoder-callers", True, callers)
    if "parse_int" not in callers:
        pi = [f for f in facts.fns_named("parse_int") if "quoted_character" in expr_text(f["body"])] or facts.fns_named("parse_int")
        res.fail("T-STR-NUL:decoder-callers", facts.where(pi[0]) if pi else "src/compile.rs", "character constants do not go through the string escape decoder")


# ----------------------------------------------------------------------------- C10
import re
from astlib import children


def closure_arg(fn, method):
    """The closure passed to `.map_infix(..)` etc. inside fn."""
    for n in walk(fn["body"]):
        if n.get("k") == "mcall" and n["method"] == method and n["args"] and n["args"][0].get("k") == "closure":
            return n["args"][0]
    return None


def rule_arms(closure):
    """Rule::x -> arm body for the `match op.as_rule()` inside a Pratt callback."""
    for m in walk(closure["body"]):
        if m.get("k") == "match" and expr_text(m["e"]).endswith(".as_rule()"):
            out = {}
            for arm in m["arms"]:
                pats = arm["pat"]["alts"] if arm["pat"].get("k") == "or" else [arm["pat"]]
                for p in pats:
                    if p.get("k") == "path" and len(p["segs"]) >= 2 and p["segs"][-2] == "Rule":
                        out[p["segs"][-1]] = arm["body"]
            return m, out
    return None, {}


def normalise_calc(body):
    """Canonical text of a calculator arm: L/R for the operands, aliases inlined, error guards dropped."""
    aliases = {}
    expr = body
    guards = []
    if body.get("k") == "block":
        stmts = body["stmts"]
        for s in stmts[:-1]:
            if s.get("k") == "let" and s["pat"].get("k") == "ident" and "init" in s:
                aliases[s["pat"]["name"]] = expr_text(s["init"])
            elif s.get("k") == "if" and "return" in expr_text(s["then"]):
                guards.append(expr_text(s["cond"]))
            elif s.get("k") == "macro" and s["name"] in ("debug", "trace", "info"):
                continue
            else:
                return None, guards
        expr = stmts[-1] if stmts else body
    t = expr_text(expr)
    def sub(t):
        t = re.sub(r"\blhs(\.unwrap\(\)|\?)?", "L", t)
        t = re.sub(r"\brhs(\.unwrap\(\)|\?)?", "R", t)
        return t
    t = sub(t)
    for a, v in aliases.items():
        t = re.sub(r"\b%s\b" % re.escape(a), sub(v), t)
    guards = [re.sub(r"\b%s\b" % re.escape(a), sub(v), g) for g in guards for a, v in (aliases.items() or [("", "")])] if aliases else [sub(g) for g in guards]
    m = re.match(r"^Ok\((.*)\)$", t)
    if m:
        t = m.group(1)
    return t, guards


def bool01(c):
    return {"if %s{1} else {0}" % c, c, "i32::from(%s)" % c}


CALC_INFIX = {
    "mul": {"(L*R)"}, "add": {"(L+R)"}, "sub": {"(L-R)"}, "and": {"(L&R)"}, "or": {"(L|R)"}, "xor": {"(L^R)"},
    "brs": {"(L>>R)"}, "bls": {"(L<<R)"}, "div": {"(L/R)"},
    "land": bool01("((L!=0)&&(R!=0))"), "lor": bool01("((L!=0)||(R!=0))"),
    "gt": bool01("(L>R)"), "gte": bool01("(L>=R)"), "lt": bool01("(L<R)"), "lte": bool01("(L<=R)"),
    "eq": bool01("(L==R)"), "neq": bool01("(L!=R)"),
}
CALC_PREFIX = {"neg": {"-R"}, "bnot": {"!R"}, "not": bool01("(R==0)")}


@rule("T-CALC-OPS", floor=18,
      text="each operator arm of the constant calculator (parse_calc) computes the C operator it is registered for: arithmetic/bitwise/shift arms are the corresponding Rust operator on (lhs, rhs), comparison and logical arms yield 1/0, `!` is logical negation (x == 0), `~` bitwise not, unary `-` negation, and `/` is guarded by a zero test that returns an error")
def t_calc_ops(facts, res, tier):
    fn = facts.fn("parse_calc", "CompilerState")
    inf = closure_arg(fn, "map_infix")
    pre = closure_arg(fn, "map_prefix")
    if inf is None or pre is None:
        raise AnchorMissing("parse_calc: map_infix/map_prefix closures not found")
    from astlib import plain_arith, local_closures, arith_helpers
    m, arms = rule_arms(inf)
    helpers = local_closures(inf["body"])
    ah = arith_helpers(facts)
    checked_division = any(x.get("k") == "mcall" and x["method"] in ("checked_div", "checked_rem") for x in walk(arms.get("div", {})))
    arms = {k: plain_arith(v, helpers, ah) for k, v in arms.items()}
    for op, accepted in sorted(CALC_INFIX.items()):
        key = "T-CALC-OPS:infix:%s" % op
        if op not in arms:
            res.inst(key)
            res.fail(key, facts.where(fn, m or inf), "calculator has no arm for `%s`" % op)
            continue
        t, guards = normalise_calc(arms[op])
        res.inst(key, True, {"op": op, "computes": t, "guards": guards})
        if t is None or t not in accepted:
            res.fail(key, facts.where(fn, arms[op]), "calculator arm for `%s` computes `%s`; expected %s" % (op, t, " or ".join(sorted(accepted))))
        # a checked division answers None for a zero divisor (turned into an error with the overflow case): no separate test needed
        if op == "div" and not checked_division and not any(g.replace("(", "").replace(")", "") in ("R==0", "0==R") for g in guards):
            res.fail(key + ":zero-guard", facts.where(fn, arms[op]), "division in the calculator is not guarded by a zero test that returns an error")
    m2, parms = rule_arms(pre)
    parms = {k: plain_arith(v, local_closures(pre["body"])) for k, v in parms.items()}
    for op, accepted in sorted(CALC_PREFIX.items()):
        key = "T-CALC-OPS:prefix:%s" % op
        if op not in parms:
            res.inst(key)
            res.fail(key, facts.where(fn, m2 or pre), "calculator has no prefix arm for `%s`" % op)
            continue
        t, guards = normalise_calc(parms[op])
        res.inst(key, True, {"op": op, "computes": t})
        if t is None or t not in accepted:
            res.fail(key, facts.where(fn, parms[op]), "calculator prefix `%s` computes `%s`; C semantics: %s" % (op, t, " or ".join(sorted(accepted))))
    for extra in sorted(set(arms) - set(CALC_INFIX) - {"ternary_cond1", "ternary_cond2"}):
        key = "T-CALC-OPS:infix:%s" % extra
        res.inst(key)
        res.fail(key, facts.where(fn, arms[extra]), "calculator arm `%s` is not a C binary operator the checker knows" % extra)
    res.exhaustive = True


FOLD_OPS = {"Add": "+", "Sub": "-", "And": "&", "Or": "|", "Xor": "^", "Mul": "*", "Div": "/", "Brs": ">>", "Bls": "<<",
            "Eq": "==", "Neq": "!=", "Gt": ">", "Gte": ">=", "Lt": "<", "Lte": "<="}


@rule("T-FOLD", floor=15,
      text="every constant-folding arm in the generator (generate_arithm and generate_shift on two immediates, generate_neg/not/bnot on a literal, the immediate_special table of generate_condition) applies the operator of the Operation it is the arm for")
def t_fold(facts, res, tier):
    from astlib import plain_arith as _pa, local_closures, arith_helpers
    _ah = arith_helpers(facts)
    def plain_arith(node, closures=None):
        return _pa(node, closures, _ah)
    n = 0
    # the comparison table is in the function(s) with the `immediate_special` parameter
    cond_fns = sorted(f["name"] for f in facts.fns if any(p.get("name") == "immediate_special" for p in f["params"]))
    if not cond_fns:
        raise AnchorMissing("no function with an `immediate_special` parameter")
    cond_arms = 0
    for fname in ["generate_arithm", "generate_shift"] + cond_fns:
        fn = facts.fn(fname, "GeneratorState")
        for m in walk(fn["body"]):
            if m.get("k") != "match":
                continue
            for arm in m["arms"]:
                p = arm["pat"]
                if p.get("k") not in ("tstruct", "path") or len(p["segs"]) < 2 or p["segs"][-2] != "Operation":
                    continue
                opn = p["segs"][-1]
                if opn not in FOLD_OPS:
                    continue
                bt = expr_text(plain_arith(arm["body"], local_closures(fn["body"])))
                mm = re.search(r"ExprType::Immediate\(\((\w+)(\W{1,2})(\w+)\)\)", bt)
                kind = "value"
                if not mm:
                    mm = re.search(r"Some\(if \((\w+)(\W{1,2})(\w+)\)\{!(\w+)\} else \{(\w+)\}\)", bt)
                    kind = "cond"
                if not mm:
                    continue
                n += 1
                if kind == "cond":
                    cond_arms += 1
                a, op, b = mm.group(1), mm.group(2), mm.group(3)
                key = "T-FOLD:%s:%s" % (fname, opn)
                res.inst(key, True, {"function": fname, "operation": opn, "folds_as": "%s %s %s" % (a, op, b)})
                if op != FOLD_OPS[opn]:
                    res.fail(key, facts.where(fn, arm["body"]), "%s folds Operation::%s on two constants as `%s %s %s`" % (fname, opn, a, op, b))
                if a == b:
                    res.fail(key, facts.where(fn, arm["body"]), "%s folds Operation::%s using the same operand twice" % (fname, opn))
                if kind == "cond" and mm.group(4) != mm.group(5):
                    res.fail(key, facts.where(fn, arm["body"]), "%s: folded comparison does not return `!negate` / `negate` consistently" % fname)
    if cond_arms < 6:
        raise AnchorMissing("the compile-time table of the six comparisons (immediate_special) was found with %d arms only" % cond_arms)
    # inside an arm that has both operands as constants, every folded value is computed from both of them
    for fname in ("generate_arithm", "generate_shift"):
        fn = facts.fn(fname, "GeneratorState")
        helpers = local_closures(fn["body"])
        for m in walk(fn["body"]):
            if m.get("k") != "match":
                continue
            for arm in m["arms"]:
                pt = pat_text(arm["pat"]).replace(" ", "")
                mo = re.match(r"^ExprType::Immediate\((\w+)\)$", pt)
                if not mo:
                    continue
                for m2 in walk(arm["body"]):
                    if m2.get("k") != "match":
                        continue
                    for arm2 in m2["arms"]:
                        mo2 = re.match(r"^ExprType::Immediate\((\w+)\)$", pat_text(arm2["pat"]).replace(" ", ""))
                        if not mo2 or mo2.group(1) == mo.group(1):
                            continue
                        a, b = mo.group(1), mo2.group(1)
                        body = plain_arith(arm2["body"], helpers)
                        k = 0
                        helper_nodes = {id(y) for st0 in walk(body) if st0.get("k") == "let" and isinstance(st0.get("init"), dict) and st0["init"].get("k") == "closure" for y in walk(st0["init"])}
                        for x in walk(body):
                            if id(x) in helper_nodes:
                                continue
                            if x.get("k") == "call" and expr_text(x["func"]) == "ExprType::Immediate" and x.get("args"):
                                k += 1
                                names = set(re.findall(r"\b\w+\b", expr_text(x["args"][0])))
                                key = "T-FOLD:%s:both-operands#%d" % (fname, k)
                                res.inst(key, True, {"folds_as": expr_text(x["args"][0])[:50]})
                                if not (a in names and b in names):
                                    res.fail("T-FOLD:%s:constant-result" % fname, facts.where(fn, x), "%s folds two constants to `%s`, which does not depend on both of them: the folded value differs from what the expression computes (and from the constant-expression evaluator)" % (fname, expr_text(x["args"][0])[:50]))
    # unary literal folds
    for fname, want in (("generate_neg", "-i"), ("generate_bnot", "!i")):
        fn = facts.fn(fname, "GeneratorState")
        key = "T-FOLD:%s" % fname
        got = None
        for m in walk(fn["body"]):
            if m.get("k") == "match":
                for arm in m["arms"]:
                    if pat_text(arm["pat"]).startswith("Expr::Integer("):
                        var = pat_text(arm["pat"])[len("Expr::Integer("):-1]
                        mm = re.search(r"ExprType::Immediate\((.*?)\)\)?$", expr_text(plain_arith(arm["body"], local_closures(fn["body"]))))
                        if mm:
                            got = mm.group(1).replace(var, "i")
        res.inst(key, True, {"folds_as": got})
        if got != want:
            res.fail(key, facts.where(fn), "%s folds a literal as `%s`, expected `%s`" % (fname, got, want))
    fn = facts.fn("generate_not", "GeneratorState")
    key = "T-FOLD:generate_not"
    t = expr_text(fn["body"])
    res.inst(key)
    if not re.search(r"if \((\w+)!=0\)\{Ok\(ExprType::Immediate\(0\)\)\} else \{Ok\(ExprType::Immediate\(1\)\)\}", t):
        res.fail(key, facts.where(fn), "generate_not does not fold !literal to 0/1")
    res.note("%d binary folding arms" % n)


@rule("T-DIV-GUARD", floor=2,
      text="every integer division or remainder in non-test code whose divisor is not a non-zero literal is preceded, in an enclosing block, by a zero test of that divisor that leaves the function")
def t_div_guard(facts, res, tier):
    for fn in facts.fns:
        # parent chain of blocks
        def visit(node, blocks):
            k = node.get("k")
            if k == "mcall" and node["method"] in ("checked_div", "checked_rem", "checked_div_euclid", "checked_rem_euclid") and node.get("args"):
                # a zero divisor gives None, not a panic: what becomes of the None is T-CONST-ARITH's / the caller's business
                res.inst("T-DIV-GUARD:%s:%s" % (fn["name"], expr_text(node)), True, {"divisor": expr_text(node["args"][0]), "guarded": "checked division"})
            if k == "mcall" and node["method"] in ("wrapping_div", "wrapping_rem", "overflowing_div", "overflowing_rem", "saturating_div") and node.get("args"):
                node = {"k": "binary", "op": "/", "l": node["recv"], "r": node["args"][0], "loc": node.get("loc")}
                k = "binary"
            if k in ("binary", "assignop") and node["op"] in ("/", "%"):
                d = node["r"]
                dt = expr_text(d)
                key = "T-DIV-GUARD:%s:%s" % (fn["name"], expr_text(node))
                if d.get("k") == "lit" and d["ty"] == "int":
                    res.inst(key, False, {"divisor": dt})
                    if d["v"] == 0:
                        res.fail(key, facts.where(fn, node), "division by literal zero")
                else:
                    guarded = False
                    for blk, idx in blocks:
                        for s in blk["stmts"][:idx]:
                            if s.get("k") == "if":
                                c = expr_text(s["cond"]).replace("(", "").replace(")", "")
                                if c in ("%s==0" % dt, "0==%s" % dt) and "return" in expr_text(s["then"]):
                                    guarded = True
                    res.inst(key, True, {"divisor": dt, "guarded": guarded})
                    if not guarded:
                        res.fail(key, facts.where(fn, node), "`%s` in %s: the divisor `%s` is not tested against zero before the division (a constant zero divisor panics instead of producing an error)" % (expr_text(node), fn["name"], dt))
            if k == "block":
                for i, s in enumerate(node["stmts"]):
                    visit(s, blocks + [(node, i)])
                return
            for c in children(node):
                visit(c, blocks)
        visit(fn["body"], [])


def strip_imm(t):
    t = re.sub(r"ExprType::Immediate\((.*)\)$", r"\1", t)
    return t


SIZEOF_ORACLE = {
    "Char": ["Ok(1)"],
    "Short": ["Ok(2)"],
    "CharPtr": ["ifv.var_const{Ok(v.size)}else{Ok(2)}"],
    "ShortPtr": ["Ok((v.size*2))", "Ok(v.size*2)"],
    "CharPtrPtr": ["Ok((v.size*2))", "Ok(v.size*2)"],
}


@rule("T-SIZEOF", floor=6,
      text="the constant calculator's sizeof (parse_sizeof) and the generator's sizeof (generate_sizeof) agree case by case: the same type-name tests in the same order with the same sizes, and the same size per variable type")
def t_sizeof(facts, res, tier):
    a = facts.fn("parse_sizeof", "CompilerState")
    b = facts.fn("generate_sizeof", "GeneratorState")
    def type_chain(fn):
        # if s.contains("*") {..} else if s == "char" {..} ...
        out = []
        for n in walk(fn["body"]):
            if n.get("k") == "if" and 'contains("*")' in expr_text(n["cond"]):
                cur = n
                while cur is not None and cur.get("k") == "if":
                    val = expr_text(cur["then"]["stmts"][-1]) if cur["then"]["stmts"] else ""
                    mm = re.match(r"^Ok\((.*)\)$", val)
                    out.append((expr_text(cur["cond"]), strip_imm(mm.group(1)) if mm else val))
                    cur = cur.get("else")
                    if cur is not None and cur.get("k") == "block" and len(cur["stmts"]) == 1 and cur["stmts"][0].get("k") == "if":
                        cur = cur["stmts"][0]
                break
        return out
    ca, cb = type_chain(a), type_chain(b)
    res.inst("T-SIZEOF:type-names", True, {"parse_sizeof": ca, "generate_sizeof": cb})
    if not ca or ca != cb:
        res.fail("T-SIZEOF:type-names", facts.where(a), "sizeof(type) is decided differently at compile time and in statements: %s vs %s" % (ca, cb))
    def var_table(fn):
        out = {}
        for m in walk(fn["body"]):
            if m.get("k") == "match" and expr_text(m["e"]).endswith(".var_type"):
                for arm in m["arms"]:
                    pats = arm["pat"]["alts"] if arm["pat"].get("k") == "or" else [arm["pat"]]
                    t = expr_text(arm["body"])
                    t = re.sub(r"Ok\(ExprType::Immediate\((.*?)\)\)", r"Ok(\1)", t)
                    t = re.sub(r"\b\w+\.(size|var_const)\b", r"v.\1", t)
                    for p in pats:
                        if p.get("k") == "path":
                            out[p["segs"][-1]] = t
        return out
    ta, tb = var_table(a), var_table(b)
    for vt in facts.enum_variants("VariableType"):
        key = "T-SIZEOF:var:%s" % vt
        res.inst(key, True, {"parse_sizeof": ta.get(vt), "generate_sizeof": tb.get(vt)})
        if vt not in ta or ta.get(vt) != tb.get(vt):
            res.fail(key, facts.where(a), "sizeof of a %s variable: calculator gives `%s`, generator gives `%s`" % (vt, ta.get(vt), tb.get(vt)))
            continue
        # and both agree with what the object occupies (reference: 1 byte per char, 2 per short / pointer;
        # an array - a const pointer with `size` elements - occupies size elements, a pointer variable 2 bytes)
        want = SIZEOF_ORACLE.get(vt)
        got = re.sub(r"\s+", "", ta.get(vt) or "")
        got = got.replace("asi32", "")
        while got.startswith("{") and got.endswith("}"):
            got = got[1:-1]
        if want is not None and not any(re.sub(r"\s+", "", w) == got for w in want):
            res.fail(key + ":value", facts.where(a), "sizeof of a %s variable is computed as `%s`; the object's size in bytes is %s" % (vt, ta.get(vt), want[0]))
