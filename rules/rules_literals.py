"""C09: escape table, NUL termination, single decoder. C10: calculator operators, folding, sizeof siblings."""
import json
import os

from astlib import AnchorMissing, expr_text, pat_text, walk, VERIF, body_is_panic
from core import rule

with open(os.path.join(VERIF, "ref", "c_escapes.json")) as _fh:
    ESC = json.load(_fh)["escapes"]


def pushed_code(e):
    """v.push(char::from_u32(N).unwrap()) -> N ; v.push(a) -> 'self' ; else None"""
    for n in walk(e):
        if n.get("k") == "mcall" and n["method"] == "push" and n["args"]:
            a = n["args"][0]
            t = expr_text(a)
            for m in walk(a):
                if m.get("k") == "call" and expr_text(m["func"]).endswith("from_u32") and m["args"] and m["args"][0].get("k") == "lit":
                    return m["args"][0]["v"]
            if a.get("k") == "lit" and a["ty"] == "char":
                return ord(a["v"])
            if a.get("k") == "cast" and a["e"].get("k") == "lit":
                return a["e"]["v"]
            return "bound:" + t
    return None


@rule("T-ESC", floor=9,
      text="the escape decoder maps \\0 \\n \\r \\t \\a \\b \\f \\v to their ASCII codes (ref/c_escapes.json) and every other escaped character (\\\\ \\\" \\') to itself; unescaped characters are copied unchanged")
def t_esc(facts, res, tier):
    fn = facts.fn("compile_quoted_string_ex", "")
    # the match on the character following a backslash
    table = {}
    default = None
    mnode = None
    for m in walk(fn["body"]):
        if m.get("k") != "match":
            continue
        t = {}
        d = None
        for arm in m["arms"]:
            p = arm["pat"]
            if p.get("k") == "tstruct" and p["segs"][-1] == "Some" and p["elems"]:
                inner = p["elems"][0]
                if inner.get("k") == "lit" and isinstance(inner["v"], str) and len(inner["v"]) == 1:
                    t[inner["v"]] = pushed_code(arm["body"])
                elif inner.get("k") == "ident":
                    d = (inner["name"], pushed_code(arm["body"]))
        if t:
            table, default, mnode = t, d, m
    if not table:
        raise AnchorMissing("compile_quoted_string_ex: escape match not found")
    for ch, code in sorted(ESC.items()):
        key = "T-ESC:\\%s" % ch
        if ch in table:
            got = table[ch]
            res.inst(key, True, {"escape": "\\" + ch, "decoded": got, "c": code})
            if got != code:
                res.fail(key, facts.where(fn, mnode), "escape \\%s decodes to %s; C says %d" % (ch, got, code))
        else:
            # falls to the default arm: decoded as the character itself
            selfcode = ord(ch)
            res.inst(key, True, {"escape": "\\" + ch, "decoded": "itself (%d)" % selfcode, "c": code})
            if default is None or default[1] != "bound:" + default[0]:
                res.fail(key, facts.where(fn, mnode), "escape \\%s has no arm and the default arm does not push the character itself" % ch)
            elif selfcode != code:
                res.fail(key, facts.where(fn, mnode), "escape \\%s is not decoded (falls to the default arm, giving %d); C says %d" % (ch, selfcode, code))
    for ch in sorted(set(table) - set(ESC)):
        key = "T-ESC:\\%s" % ch
        res.inst(key)
        res.fail(key, facts.where(fn, mnode), "escape \\%s is given a special meaning (%s) that C does not define" % (ch, table[ch]))
    # unescaped characters are copied
    key = "T-ESC:plain"
    res.inst(key)
    copied = False
    for n in walk(fn["body"]):
        if n.get("k") == "if" and "else" in n and "'\\\\'" in expr_text(n["cond"]).replace('"', "'"):
            pc = pushed_code(n["else"])
            copied = isinstance(pc, str) and pc.startswith("bound:")
    if not copied:
        res.fail(key, facts.where(fn), "characters that are not escapes are not copied unchanged")
    res.exhaustive = True


@rule("T-STR-NUL", floor=3,
      text="compile_quoted_string decodes every fragment through compile_quoted_string_ex, in order, and appends exactly one NUL after the loop and nothing after it; character constants use the same decoder")
def t_str_nul(facts, res, tier):
    fn = facts.fn("compile_quoted_string", "CompilerState")
    stmts = fn["body"]["stmts"]
    loops = [i for i, s in enumerate(stmts) if s.get("k") == "for"]
    res.inst("T-STR-NUL:loop")
    if len(loops) != 1:
        res.fail("T-STR-NUL:loop", facts.where(fn), "expected one concatenation loop, found %d" % len(loops))
        return
    li = loops[0]
    body = stmts[li]["body"]
    calls = [n for n in walk(body) if n.get("k") == "call" and expr_text(n["func"]).endswith("compile_quoted_string_ex")]
    pushes = [n for n in walk(body) if n.get("k") == "mcall" and n["method"] in ("push_str", "push")]
    if len(calls) != 1 or len(pushes) != 1 or pushes[0]["method"] != "push_str":
        res.fail("T-STR-NUL:loop", facts.where(fn, stmts[li]), "each fragment must be decoded once by compile_quoted_string_ex and appended once")
    after = stmts[li + 1:]
    nul = [s for s in after if s.get("k") == "mcall" and s["method"] == "push"]
    res.inst("T-STR-NUL:nul", True, {"after_loop": [expr_text(s) for s in after]})
    if len(nul) != 1 or pushed_code(nul[0]) != 0:
        res.fail("T-STR-NUL:nul", facts.where(fn), "exactly one NUL must be appended after the fragments (found %d pushes)" % len(nul))
    others = [s for s in after if s not in nul and not (s.get("k") == "path" and not s.get("semi"))]
    if others:
        res.fail("T-STR-NUL:nul", facts.where(fn), "statements other than the NUL push follow the concatenation: %s" % [expr_text(s) for s in others])
    # who calls the decoder
    callers = {}
    for f in facts.fns:
        for n in walk(f["body"]):
            if n.get("k") == "call" and expr_text(n["func"]).endswith("compile_quoted_string_ex"):
                callers.setdefault(f["name"], 0)
                callers[f["name"]] += 1
    res.inst("T-STR-NUL:decoder-callers", True, callers)
    if "parse_int" not in callers:
        res.fail("T-STR-NUL:decoder-callers", facts.where(facts.fn("parse_int", "")), "character constants do not go through the string escape decoder")
