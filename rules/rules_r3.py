"""Rules added after the third round of independently seeded changes (each generalises the
miss, none matches the seeded patch itself):

T-CTX-RESTORE        C06  state of the preprocessing context overwritten around the #include
                          recursion is put back from the copy saved at entry
T-CPP-DEFINE-SYNTAX  C08  the #define line regex: a parameter list only when `(` follows the name
                          immediately
T-LITERAL-PAIR       C09  literal marker, literal counter and literal table move together
T-LISTING-FORMAT     C11  the listing writer never truncates the text of an instruction
T-COUNTER-RESET      C16  a position counted in an inner loop and used as an index afterwards is
                          restarted for every round of the outer loop
"""
import re

from astlib import walk, expr_text, pat_text, children, regex_asts, AnchorMissing
from core import rule
from rules_term import root_name, pat_names


def norm(n):
    return re.sub(r"\s+", "", expr_text(n))


def enclosing_guards(fn_body, target):
    """Conditions (as (kind, node-id, text, branch)) of the if / match arms / loops enclosing target."""
    out = [None]

    def visit(n, guards):
        if n is target:
            out[0] = list(guards)
            return True
        k = n.get("k")
        if k == "if":
            if visit(n["cond"], guards):
                return True
            if visit(n["then"], guards + [("if", id(n), norm(n["cond"]), True)]):
                return True
            if n.get("else") is not None and visit(n["else"], guards + [("if", id(n), norm(n["cond"]), False)]):
                return True
            return False
        if k == "match":
            if visit(n["e"], guards):
                return True
            for i, a in enumerate(n["arms"]):
                if visit(a["body"], guards + [("arm", id(n), norm(n["e"]) + "=>" + pat_text(a["pat"]), i)]):
                    return True
            return False
        for c in children(n):
            if visit(c, guards):
                return True
        return False

    visit(fn_body, [])
    return out[0]


# ----------------------------------------------------------------------------- C06


@rule("T-CTX-RESTORE", floor=2,
      text="around the preprocessor's recursive call for an #include, every field of the shared context that is overwritten for the "
           "included file (the current file name) is assigned again right after the call from the local copy taken at function entry - "
           "not from the include stack, whose top is the includer of the *current* file - and the include stack is pushed before and "
           "popped after the call, the pushed entry naming the current file and line")
def t_ctx_restore(facts, res, tier):
    fn = facts.fn("process", "")
    # locals saved from context fields at entry (top-level lets of the function body)
    saved = {}
    for s in fn["body"].get("stmts", []):
        if s.get("k") == "let" and s.get("init") is not None:
            t = norm(s["init"])
            m = re.match(r"^context\.(\w+)(\.clone\(\))?$", t)
            if m:
                for nm in pat_names(s.get("pat")):
                    saved[nm] = m.group(1)
    # the recursive call and its block
    found = [None]

    def has_call(x):
        return any(y.get("k") == "call" and y["func"].get("k") == "path" and y["func"]["segs"][-1] == "process" for y in walk(x))

    def visit(n):
        # innermost block one of whose statements contains the recursive call
        if n.get("k") == "block":
            for i, s in enumerate(n["stmts"]):
                if has_call(s):
                    found[0] = (n["stmts"], i)
                    for c in children(s):
                        visit(c)
                    if s.get("k") == "block":
                        visit(s)
                    return
            return
        for c in children(n):
            if has_call(c):
                visit(c)

    visit(fn["body"])
    if found[0] is None:
        raise AnchorMissing("recursive call of process() for #include not found")
    stmts, ci = found[0]
    before = stmts[:ci]
    after = stmts[ci + 1:]

    def ctx_assigns(ss):
        out = []
        for s in ss:
            if s.get("k") == "assign" and norm(s["l"]).startswith("context."):
                out.append((norm(s["l"])[len("context."):], s))
        return out

    overwritten = ctx_assigns(before)
    for field, node in overwritten:
        key = "T-CTX-RESTORE:%s" % field
        res.inst(key, True, {"field": field, "set_at": facts.where(fn, node)})
        back = [s for f2, s in ctx_assigns(after) if f2 == field]
        if not back:
            res.fail(key, facts.where(fn, node), "context.%s is overwritten for the included file and not assigned again after the recursive call: every later diagnostic of the including file names the included one" % field)
            continue
        rhs = back[0]["r"]
        r = root_name(rhs)
        t = norm(rhs)
        if not (r in saved and saved[r] == field and re.match(r"^%s(\.clone\(\))?$" % re.escape(r), t)):
            res.fail(key, facts.where(fn, back[0]),
                     "after the #include recursion context.%s is restored from `%s`, not from the copy of context.%s saved at function entry: "
                     "the top of the include stack is the file that included the *current* file, so inside a nested include later errors name the wrong file" % (field, t[:60], field))
    # push / pop pairing
    key = "T-CTX-RESTORE:includes_stack"
    pushes = [s for s in before if norm(s).startswith("context.includes_stack.push(")]
    pops = [s for s in after if norm(s).startswith("context.includes_stack.pop(")]
    res.inst(key, True, {"pushes_before": len(pushes), "pops_after": len(pops)})
    if len(pushes) != 1 or len(pops) != 1:
        res.fail(key, facts.where(fn, stmts[ci]), "the include stack is not pushed exactly once before and popped exactly once after the recursive call (%d / %d)" % (len(pushes), len(pops)))
    else:
        t = norm(pushes[0])
        m = re.match(r"^context\.includes_stack\.push\(\((\w+)(?:\.clone\(\))?,(\w+)\)\)", t)
        if not (m and saved.get(m.group(1)) == "current_filename" and m.group(2) == "line"):
            res.fail(key, facts.where(fn, pushes[0]), "the include stack entry pushed for an #include is not (the current file, the current line): `included from` locations are wrong (%s)" % t[:80])
        if stmts.index(pops[0]) != ci + 1:
            res.fail(key, facts.where(fn, pops[0]), "the include stack is not popped immediately after the recursive call")


# ----------------------------------------------------------------------------- C08


@rule("T-CPP-DEFINE-SYNTAX", floor=2,
      text="the regex that splits a #define line: the name is one C identifier; a parameter list is recognised only when `(` follows the name "
           "with nothing in between (so `#define W (x)` is an object-like macro whose body is `(x)`), it ends with `)`, and the body is the rest of the line")
def t_cpp_define_syntax(facts, res, tier):
    fn = facts.fn("new", "Context")
    pat = None
    node = None
    for n in walk(fn["body"]):
        if n.get("k") == "struct":
            for f in n.get("fields", []):
                if f.get("name") == "define_regex":
                    for c in walk(f.get("e", f.get("value"))) if isinstance(f.get("e", f.get("value")), dict) else []:
                        if c.get("k") == "lit" and c.get("ty") == "str":
                            pat = c["v"]
                            node = c
    if pat is None:
        for n in walk(fn["body"]):
            if n.get("k") == "lit" and n.get("ty") == "str" and "a-zA-Z_" in str(n.get("v")):
                pat, node = n["v"], n
    if pat is None:
        raise AnchorMissing("define_regex literal not found in Context::new")
    pa = regex_asts([pat])[0]
    if "error" in pa:
        res.inst("T-CPP-DEFINE-SYNTAX:parse")
        res.fail("T-CPP-DEFINE-SYNTAX:parse", facts.where(fn, node), "define_regex does not parse: %s" % pa["error"])
        return
    ast = pa["ast"]
    items = ast["es"] if ast["k"] == "concat" else [ast]

    def is_ident(g):
        if g.get("k") != "group" or g.get("kind") != "capture":
            return False
        e = g["e"]
        es = e["es"] if e["k"] == "concat" else [e]
        return len(es) == 2 and es[0]["k"] == "class" and not es[0]["neg"] and es[1]["k"] == "rep" and es[1]["e"]["k"] == "class"

    key = "T-CPP-DEFINE-SYNTAX:name"
    res.inst(key, True, {"regex": pat})
    if not (items and is_ident(items[0])):
        res.fail(key, facts.where(fn, node), "the #define regex does not start with a capture group matching one identifier")
        return
    key = "T-CPP-DEFINE-SYNTAX:paren-adjacent"
    res.inst(key, True)
    nxt = items[1] if len(items) > 1 else None
    okp = False
    if nxt and nxt["k"] == "rep" and nxt["op"] == "?" and nxt["e"]["k"] == "group":
        inner = nxt["e"]["e"]
        es = inner["es"] if inner["k"] == "concat" else [inner]
        okp = bool(es) and es[0]["k"] == "lit" and es[0]["c"] == "("
        key2 = "T-CPP-DEFINE-SYNTAX:paren-close"
        res.inst(key2, True)
        if not (es and es[-1]["k"] == "lit" and es[-1]["c"] == ")"):
            res.fail(key2, facts.where(fn, node), "the optional parameter list of the #define regex does not end with `)`")
    if not okp:
        what = nxt["k"] if nxt else "nothing"
        res.fail(key, facts.where(fn, node),
                 "in the #define regex the name is not followed directly by the optional `( parameters )` group (next element: %s): with anything "
                 "(such as optional white space) between the name and `(`, `#define W (x)` becomes a function-like macro W(x) with an empty body and "
                 "a plain `W` is never replaced" % what)


# ----------------------------------------------------------------------------- C09


@rule("T-LITERAL-PAIR", floor=3,
      text="in the preprocessor's string scanner the `@n@` marker written into the line, the increment of the literal counter and the push of "
           "the literal's text into the literal table happen under exactly the same conditions and in that order: marker n always denotes table entry n")
def t_literal_pair(facts, res, tier):
    fn = facts.fn("process", "")
    marker = inc = push = None
    for n in walk(fn["body"]):
        k = n.get("k")
        if k == "macro" and n["name"] == "format" and n.get("args") and n["args"][0].get("k") == "lit" and re.search(r"@\{[^}]*\}@", str(n["args"][0]["v"])):
            marker = n
        if k == "assignop" and norm(n["l"]) == "context.literal_strings_number":
            inc = n
        if k == "mcall" and n["method"] == "push" and norm(n["recv"]) == "context.literal_strings":
            push = n
    for nm, nd in (("marker", marker), ("counter", inc), ("table-push", push)):
        res.inst("T-LITERAL-PAIR:" + nm, True)
        if nd is None:
            raise AnchorMissing("literal %s statement not found in process()" % nm)
    gm = enclosing_guards(fn["body"], marker)
    gi = enclosing_guards(fn["body"], inc)
    gp = enclosing_guards(fn["body"], push)
    strip = lambda g: [(a, b, d) for (a, b, c, d) in g]
    if strip(gi) != strip(gp):
        extra = [c for (a, b, c, d) in gp if (a, b, d) not in strip(gi)] + [c for (a, b, c, d) in gi if (a, b, d) not in strip(gp)]
        res.fail("T-LITERAL-PAIR:table-push", facts.where(fn, push),
                 "the literal counter is advanced and the literal table is extended under different conditions (%s): after a literal for which only one of "
                 "them happens every later `@n@` marker denotes the wrong table entry" % "; ".join(extra)[:200])
    if strip(gm) != strip(gi):
        res.fail("T-LITERAL-PAIR:marker", facts.where(fn, marker), "the `@n@` marker is written under other conditions than the counter is advanced")
    if "literal_strings_number" not in norm(marker):
        res.fail("T-LITERAL-PAIR:marker", facts.where(fn, marker), "the marker does not carry the literal counter")
    # order: marker (reads n) before increment
    lm = tuple(int(x) for x in marker["loc"].split(":"))
    li = tuple(int(x) for x in inc["loc"].split(":"))
    if not lm < li:
        res.fail("T-LITERAL-PAIR:counter", facts.where(fn, inc), "the literal counter is advanced before the marker that must carry its old value is written")
    # the increment is by one
    if not (inc["r"].get("k") == "lit" and inc["r"].get("v") == 1):
        res.fail("T-LITERAL-PAIR:counter", facts.where(fn, inc), "the literal counter does not advance by exactly one per literal")
    # who may write: the table and its counter are two views of one number - every writer of one, anywhere in the crate, is in one block with
    # a writer of the other
    def blocks_writing(pred):
        out = []
        for f in facts.fns:
            if f.get("test"):
                continue
            for b in walk(f["body"]):
                if b.get("k") == "block":
                    for st in b.get("stmts") or []:
                        e = st
                        while isinstance(e, dict) and e.get("k") in ("try", "paren"):
                            e = e["e"]
                        if isinstance(e, dict) and pred(e):
                            out.append((f, b, e))
        return out
    is_push = lambda e: e.get("k") == "mcall" and e["method"] in ("push", "insert", "extend", "append", "clear", "pop", "remove", "truncate") and norm(e["recv"]).endswith(".literal_strings")
    is_inc = lambda e: e.get("k") in ("assignop", "assign") and norm(e["l"]).endswith(".literal_strings_number")
    pushes, incs = blocks_writing(is_push), blocks_writing(is_inc)
    res.inst("T-LITERAL-PAIR:writers", True, {"table_writers": len(pushes), "counter_writers": len(incs)})
    for f, b, e in pushes:
        if not any(b2 is b for _, b2, _ in incs):
            res.fail("T-LITERAL-PAIR:writers:%s" % f["name"], facts.where(f, e), "%s changes the literal table without advancing the literal counter in the same block: the next literal of the source is numbered like this entry, and every later `@n@` denotes the entry before its own" % f["name"])
    for f, b, e in incs:
        if not any(b2 is b for _, b2, _ in pushes):
            res.fail("T-LITERAL-PAIR:writers:%s" % f["name"], facts.where(f, e), "%s advances the literal counter without extending the literal table in the same block" % f["name"])


# ----------------------------------------------------------------------------- C11


_PLACEHOLDER = re.compile(r"\{([^{}:]*)(?::([^{}]*))?\}")


@rule("T-LISTING-FORMAT", floor=4,
      text="no format placeholder in AsmLine::write carries a precision (`{:.N}`, `{:W.N}`): a precision truncates strings, so a listing option "
           "that only pads columns can never cut a mnemonic, an operand or inline assembly short")
def t_listing_format(facts, res, tier):
    fn = facts.fn("write", "AsmLine")
    n_ph = 0
    for n in walk(fn["body"]):
        if n.get("k") == "macro" and n["name"] in ("format", "write", "writeln", "print", "println") and n.get("args"):
            lit = next((a for a in n["args"][:2] if a.get("k") == "lit" and a.get("ty") == "str"), None)
            if lit is None:
                continue
            tmpl = str(lit["v"]).replace("{{", "").replace("}}", "")
            for m in _PLACEHOLDER.finditer(tmpl):
                n_ph += 1
                spec = m.group(2) or ""
                key = "T-LISTING-FORMAT:%s" % (m.group(0))
                res.inst("T-LISTING-FORMAT:%d:%s" % (n_ph, m.group(0)), True, {"template": lit["v"]})
                if "." in spec:
                    res.fail("T-LISTING-FORMAT:precision:%s" % m.group(0), facts.where(fn, n),
                             "placeholder %s in the listing writer has a precision: text longer than that is cut, so switching the cycle listing on "
                             "changes long operands (`STA table_name,X` loses its `,X`)" % m.group(0), {"template": lit["v"]})


# ----------------------------------------------------------------------------- C16


@rule("T-COUNTER-RESET", floor=1,
      text="a position counter incremented in an inner loop, declared outside the enclosing outer loop and used as an index after the loops "
           "is set back to its start value inside the outer loop before the inner loop runs: otherwise the position found in a later chunk is "
           "offset by the lengths of all earlier chunks and indexes out of bounds")
def t_counter_reset(facts, res, tier):
    for fn in facts.fns:
        body = fn["body"]
        # lets at any level: name -> node
        for outer in walk(body):
            if outer.get("k") != "for":
                continue
            ob = outer["body"]
            ostm = ob.get("stmts", [])
            for idx, s in enumerate(ostm):
                inners = [x for x in walk(s) if x.get("k") in ("for", "while", "loop")]
                if not inners or s.get("k") not in ("for", "while", "loop"):
                    continue
                inner = s
                counters = set()
                for x in walk(inner["body"]):
                    if x.get("k") == "assignop" and x["op"] in ("+", "+=") and x["r"].get("k") == "lit":
                        r = root_name(x["l"])
                        if r:
                            counters.add(r)
                declared_inside_outer = set()
                for x in walk(ob):
                    if x.get("k") == "let":
                        declared_inside_outer |= pat_names(x.get("pat"))
                for c in sorted(counters - declared_inside_outer):
                    # used as an index / remove position after the outer loop?
                    used = False
                    for y in walk(body):
                        if y.get("k") == "index" and any(z.get("k") == "path" and z["segs"] == [c] for z in walk(y["idx"])):
                            used = True
                        if y.get("k") == "mcall" and y["method"] in ("remove", "insert", "swap_remove", "get", "get_mut", "split_at") and any(z.get("k") == "path" and z["segs"] == [c] for a in y["args"] for z in walk(a)):
                            used = True
                    if not used:
                        continue
                    key = "T-COUNTER-RESET:%s:%s" % (fn["name"], c)
                    res.inst(key, True, {"where": facts.where(fn, inner)})
                    reset = any(t.get("k") == "assign" and root_name(t["l"]) == c and t["r"].get("k") == "lit" for t in ostm[:idx])
                    if not reset:
                        res.fail(key, facts.where(fn, inner),
                                 "%s counts positions in `%s` inside an inner loop and uses it as an index afterwards, but does not restart it for each round of the outer loop: "
                                 "an element found in the second or a later chunk gets a position beyond its chunk and the removal / indexing panics" % (fn["name"], c))


# ----------------------------------------------------------------------------- C01 (flag discipline, carry)


@rule("T-CARRY-SCOPE", floor=7,
      text="`carry_flag_ok` claims that C/N/Z are those of a comparison of the two operands of the subtraction just emitted (it lets "
           "`a - b > 0` branch like `a > b`, which is what C's integer promotion prescribes for the un-truncated difference).  The claim is "
           "only true for the un-stored difference: once the result is moved into a program-visible 8-bit destination (a variable, an array element, "
           "X or Y) that destination's value is the truncated difference, so every normal path of generate_assign to such a destination must "
           "leave `carry_flag_ok` false (the accumulator and cctmp are expression-internal and not judged)")
def t_carry_scope(facts, res, tier):
    import genmodel
    from walker import Const
    fn = facts.fn("generate_assign", genmodel.GEN_QUAL)
    paths = genmodel.fn_paths(facts, fn)
    lp = [p["name"] for p in fn["params"] if p["name"] != "self"][0]
    by_kind = {}
    for kind, val, st in paths:
        if genmodel.is_error_exit(val):
            continue
        reset = any(ev["kind"] == "set" and ev["field"] == "carry_flag_ok" and isinstance(ev["value"], Const) and ev["value"].v is False for ev in st.events)
        allowed, excl = st.cons.get(lp, (None, frozenset()))
        kinds = sorted(allowed) if allowed is not None else ["*"]
        emitted = [expr_text(ev["node"])[:40] for ev in st.events if ev["kind"] in ("asm", "sasm", "sasm_protected")]
        for k in kinds:
            d = by_kind.setdefault(k, {"paths": 0, "kept": 0, "example": None})
            d["paths"] += 1
            if not reset:
                d["kept"] += 1
                d["example"] = d["example"] or (emitted[-1] if emitted else "(no instruction)")
    for k, d in sorted(by_kind.items()):
        key = "T-CARRY-SCOPE:generate_assign:%s" % k
        res.inst(key, True, d)
        if k in ("A", "Tmp"):
            # the accumulator and cctmp hold intermediate results of the expression being evaluated
            # (generate_condition_16bits stores the low byte of a difference in cctmp between the two
            # subtractions): the claim about the un-stored difference is still meaningful there
            continue
        if d["kept"]:
            res.fail(key, facts.where(fn),
                     "generate_assign with a %s destination returns on %d path(s) with `carry_flag_ok` untouched (e.g. after %s): a later comparison of the "
                     "destination with 0 branches on the borrow of the subtraction instead of on the stored 8-bit value (`c = a - b; if (c >= 0)` tests a >= b)" % (k, d["kept"], d["example"]), d)


# ----------------------------------------------------------------------------- C01 (deferred work and branches)

PURGE_FN = "purge_deferred_plusplus_and_savey"
COND_BRANCHES = {"BEQ", "BNE", "BCC", "BCS", "BMI", "BPL", "BVC", "BVS", "JMP"}


def _label_of(v):
    """repr of the label a Label operand / label argument denotes (params keep their name)."""
    from walker import EnumV, Sym
    if isinstance(v, EnumV) and v.enum == "ExprType" and v.variant == "Label" and v.payload:
        return _label_of(v.payload[0])
    if isinstance(v, Sym):
        return "param:" + v.key
    return repr(v)


@rule("T-DEFERRED-BRANCH", floor=8,
      text="post-increments / post-decrements met while evaluating an expression, and the restore of a saved Y, are deferred and emitted once, by "
           "the purge at the next statement boundary.  When a branch is emitted while such work may be pending, the purge must not be emitted "
           "between the branch and its target label: otherwise the deferred work runs on the fall-through path only (`if (i++ < 5)` increments i "
           "only when the body is entered; `do .. while (i-- > 0)` never decrements on the way back).  Decided over all generator paths with "
           "per-function summaries: what may be pending on return, which label parameters a function may branch to, which functions purge")
def t_deferred_branch(facts, res, tier):
    import genmodel
    from walker import EnumV, Sym
    fns = {f["name"]: f for f in genmodel.gen_fns(facts) if f["name"] != "new"}
    if PURGE_FN not in fns:
        raise AnchorMissing(PURGE_FN + " not found")
    paths = {}
    for name, fn in fns.items():
        try:
            paths[name] = [(k, v, st) for (k, v, st) in genmodel.fn_paths(facts, fn) if not genmodel.is_error_exit(v)]
        except Exception:
            paths[name] = []
    params = {name: [p["name"].replace("mut ", "").strip() for p in fn["params"] if p["name"] != "self"] for name, fn in fns.items()}
    pend_out = {n: set() for n in fns}
    may_purge = {n: False for n in fns}
    sure_purge = {n: False for n in fns}
    BP = {n: set() for n in fns}    # label params the function may branch to
    BPP = {n: set() for n in fns}   # ... while work deferred by its own evaluation may be pending
    may_purge[PURGE_FN] = sure_purge[PURGE_FN] = True
    violations = {}
    ninst = [0]

    def scan(name, collect):
        """One pass over the paths of `name` with the current summaries."""
        p_out = set()
        mp = name == PURGE_FN
        sp_all = True
        bp, bpp = set(), set()
        for kind, val, st in paths[name]:
            pend = set()
            open_br = []   # (label, pending kinds, origin)
            defined = set()
            purged = name == PURGE_FN

            def branch(L, kinds, origin, node):
                if L in defined:
                    # backward branch: whatever is pending is emitted after it, on the fall-through path only
                    if collect and not L.startswith("param:"):
                        key = "T-DEFERRED-BRANCH:%s:%s:backward" % (name, origin.split("(")[0].split(" ")[0])
                        d = violations.setdefault(key, {"function": name, "branch": origin, "purged_in": {"(the purge that follows the loop)"}, "pending": set(), "where": node})
                        d["pending"] |= kinds
                else:
                    open_br.append((L, set(kinds), origin))

            for ev in st.events:
                k = ev["kind"]
                if k == "fieldpush" and ev.get("field") == "deferred_plusplus":
                    pend.add("post-inc/dec")
                elif k == "asm_save_y":
                    pend.add("saved-Y")
                elif k == "set" and ev["field"] == "saved_y" and getattr(ev["value"], "v", None) is True:
                    pend.add("saved-Y")
                elif k in ("asm", "sasm", "sasm_protected"):
                    a = ev["args"]
                    mn = a[0].variant if a and isinstance(a[0], EnumV) else None
                    if mn in COND_BRANCHES and len(a) > 1:
                        L = _label_of(a[1])
                        if L.startswith("param:"):
                            bp.add(L[6:])
                            if pend:
                                bpp.add(L[6:])
                        if pend:
                            branch(L, pend, "%s %s" % (mn, L), ev["node"])
                elif k == "label":
                    L = _label_of(ev["args"][0]) if ev["args"] else None
                    open_br[:] = [b for b in open_br if b[0] != L]
                    defined.add(L)
                elif k == "call":
                    g = ev["callee"]
                    if g not in fns:
                        continue
                    # (1) branches the callee may emit to labels we hand it
                    for i, pn in enumerate(params[g]):
                        if pn in BP[g] and i < len(ev["args"]):
                            L = _label_of(ev["args"][i])
                            own = pn in BPP[g]
                            if L.startswith("param:"):
                                bp.add(L[6:])
                                if pend or own:
                                    bpp.add(L[6:])
                            if pend or own:
                                # work already pending when the callee is entered (left over from an earlier expression of this
                                # function) is a different defect from work the callee's own operands raise: separate keys
                                carried = "+carried" if pend else ""
                                branch(L, set(pend) | ({"raised while %s evaluates its operands" % g} if own else set()), "%s%s(.., %s)" % (g, carried, L), ev["node"])
                    # (2) a purge certainly emitted by the callee, between an open branch and its label
                    if g == PURGE_FN or sure_purge[g]:
                        mp = True
                        for L, kinds, origin in open_br:
                            if collect and not L.startswith("param:"):
                                key = "T-DEFERRED-BRANCH:%s:%s" % (name, origin.split("(")[0].split(" ")[0])
                                d = violations.setdefault(key, {"function": name, "branch": origin, "purged_in": set(), "pending": set(), "where": ev["node"]})
                                d["purged_in"].add(g)
                                d["pending"] |= kinds
                        open_br[:] = [b for b in open_br if b[0].startswith("param:")]
                        pend = set(pend_out[g])
                        purged = True
                    else:
                        if may_purge[g]:
                            mp = True
                        pend |= pend_out[g]
            p_out |= pend
            sp_all = sp_all and purged
        return p_out, mp, sp_all and bool(paths[name]), bp, bpp

    changed = True
    rounds = 0
    while changed and rounds < 30:
        changed = False
        rounds += 1
        for n in fns:
            p_out, mp, sp, bp, bpp = scan(n, False)
            if n == PURGE_FN:
                p_out = set()
            if p_out - pend_out[n] or (mp and not may_purge[n]) or (sp != sure_purge[n]) or bp - BP[n] or bpp - BPP[n]:
                changed = True
            pend_out[n] |= p_out
            may_purge[n] = may_purge[n] or mp
            sure_purge[n] = sp
            BP[n] |= bp
            BPP[n] |= bpp
    for n in fns:
        scan(n, True)
    # instances: every function that hands a label to a callee that may branch to it while pending
    for n in sorted(fns):
        if BPP[n] or any(k.startswith("T-DEFERRED-BRANCH:%s:" % n) for k in violations):
            res.inst("T-DEFERRED-BRANCH:site:%s" % n, True, {"branches_to_params_while_pending": sorted(BPP[n]), "may_purge": may_purge[n]})
    res.note("summaries: pending on return %s; purging functions %s" % (
        {k: sorted(v) for k, v in pend_out.items() if v}, sorted(k for k, v in may_purge.items() if v)))
    for key, d in sorted(violations.items()):
        res.inst(key, True, {"branch": d["branch"], "purged_in": sorted(d["purged_in"]), "pending": sorted(d["pending"])})
        res.fail(key, facts.where(fns[d["function"]], d["where"]),
                 "%s emits a branch (%s) while deferred work may be pending (%s) and then, before the branch target is defined, code that purges the deferred work (%s): "
                 "the deferred increment / Y restore is executed on the fall-through path only" % (d["function"], d["branch"], ", ".join(sorted(d["pending"])), ", ".join(sorted(d["purged_in"]))),
                 {"branch": d["branch"], "purged_in": sorted(d["purged_in"])})


# ----------------------------------------------------------------------------- C16 (preprocessor panics)

SPLIT_FAMILY = {"split", "splitn", "rsplit", "rsplitn", "split_terminator", "split_whitespace", "lines", "split_inclusive"}
ALWAYS_ONE = {"split", "splitn", "rsplit", "rsplitn", "split_inclusive"}   # yield at least one piece for any input


def _fn_blocks_order(fn):
    """All nodes of fn in source order (by loc)."""
    def lockey(n):
        try:
            a, b = n["loc"].split(":")
            return (int(a), int(b))
        except Exception:
            return (0, 0)
    return sorted([n for n in walk(fn["body"]) if "loc" in n], key=lockey)


def _let_init(fn, name, before_node=None):
    """Initialiser of the nearest `let name = ..` preceding before_node (source order)."""
    best = None
    bl = tuple(int(x) for x in before_node["loc"].split(":")) if before_node is not None else (10 ** 9, 0)
    for n in walk(fn["body"]):
        if n.get("k") == "let" and name in pat_names(n.get("pat")) and n.get("init") is not None:
            l = tuple(int(x) for x in n["loc"].split(":"))
            if l < bl and (best is None or l > best[0]):
                best = (l, n["init"])
    return best[1] if best else None


def _strip_refs(e):
    while e.get("k") in ("ref", "unary", "cast") or (e.get("k") == "mcall" and e["method"] in ("as_str", "clone", "to_string", "as_ref", "borrow") and not e["args"]):
        e = e["recv"] if e.get("k") == "mcall" else e["e"]
    return e


def _format_parts(fn, e, at):
    """(template, [arg nodes]) if e is (a local bound to) a format!; else None."""
    e = _strip_refs(e)
    if e.get("k") == "path" and len(e["segs"]) == 1:
        init = _let_init(fn, e["segs"][0], at)
        if init is None:
            return None
        return _format_parts(fn, init, at)
    if e.get("k") == "macro" and e["name"] == "format" and e.get("args") and e["args"][0].get("k") == "lit":
        return str(e["args"][0]["v"]), e["args"][1:]
    return None


def _is_escaped(fn, a, at):
    a = _strip_refs(a)
    if a.get("k") == "call" and a["func"].get("k") == "path" and a["func"]["segs"][-1] == "escape":
        return True
    if a.get("k") == "path" and len(a["segs"]) == 1:
        init = _let_init(fn, a["segs"][0], at)
        return init is not None and _is_escaped(fn, init, at)
    return False


@rule("T-CPP-UNWRAP", floor=20,
      text="every unwrap()/expect() in the preprocessor (src/cpp.rs, the code that meets raw input text first) is on a value that cannot be None/Err "
           "for any input: a regex compiled from a literal that parses; a regex compiled from a format! whose interpolated pieces are regex::escape'd; "
           "a caller-supplied pattern that every in-crate caller validated; a RegexSet over patterns that were each compiled successfully; the first "
           "piece of a split; the last element of a vector that Context::new fills and nothing ever empties; a capture group tested before. "
           "Anything else - in particular matching input text against a regex and unwrapping the captures - can panic on some input")
def t_cpp_unwrap(facts, res, tier):
    fns = [f for f in facts.fns if f["file"].endswith("/cpp.rs")]
    if not fns:
        raise AnchorMissing("no functions found in cpp.rs")
    # vectors filled by Context::new and never emptied
    newfn = facts.fn("new", "Context")
    filled = set()
    for n in walk(newfn["body"]):
        if n.get("k") == "mcall" and n["method"] == "push":
            r = root_name(n["recv"])
            m = re.match(r"^\w+\.(\w+)$", norm(n["recv"]))
            if m:
                filled.add(m.group(1))
    emptied = set()
    for f in facts.fns:
        for n in walk(f["body"]):
            if n.get("k") == "mcall" and n["method"] in ("pop", "clear", "truncate", "drain", "remove", "swap_remove", "retain", "take") :
                m = re.match(r"^(?:self|context|c)\.(\w+)$", norm(n["recv"]))
                if m:
                    emptied.add(m.group(1))
            if n.get("k") == "assign":
                m = re.match(r"^(?:self|context|c)\.(\w+)$", norm(n["l"]))
                if m and f["name"] != "new":
                    emptied.add(m.group(1))
    nonempty = filled - emptied
    # validated-pattern variables per function: Regex::new(&v) whose result is not unwrapped blindly, or is unwrapped (then a bad pattern already panicked/was reported)
    def validated_vars(fn, upto):
        out = set()
        ul = tuple(int(x) for x in upto["loc"].split(":"))
        for n in walk(fn["body"]):
            if n.get("k") == "call" and n["func"].get("k") == "path" and n["func"]["segs"][-2:] == ["Regex", "new"] and n["args"]:
                l = tuple(int(x) for x in n["loc"].split(":"))
                if l < ul:
                    a = _strip_refs(n["args"][0])
                    if a.get("k") == "path" and len(a["segs"]) == 1:
                        out.add(a["segs"][0])
                    elif a.get("k") == "field":
                        out.add(norm(a))
        return out

    for fn in fns:
        order = _fn_blocks_order(fn)
        first_next = {}
        for n in order:
            if n.get("k") == "mcall" and n["method"] == "next":
                r = n["recv"]
                if r.get("k") == "path" and len(r["segs"]) == 1:
                    nm = r["segs"][0]
                    init = _let_init(fn, nm, n)
                    key = (nm, init.get("loc") if init else None)
                    first_next.setdefault(key, n)
        idx = 0
        for n in order:
            if not (n.get("k") == "mcall" and n["method"] in ("unwrap", "expect")):
                continue
            idx += 1
            R = n["recv"]
            rt = norm(R)
            cls = None
            why = None
            if R.get("k") == "call" and R["func"].get("k") == "path" and R["func"]["segs"][-1] == "new" and R["func"]["segs"][-2:-1] in (["Regex"], ["RegexSet"]):
                kind = R["func"]["segs"][-2]
                a = R["args"][0] if R["args"] else None
                a0 = _strip_refs(a) if a else None
                if kind == "Regex" and a0 is not None and a0.get("k") == "lit":
                    pa = regex_asts([str(a0["v"])])[0]
                    cls = "literal-regex" if "error" not in pa else None
                    why = None if cls else "the literal pattern does not parse: %s" % pa.get("error")
                elif kind == "Regex":
                    fp = _format_parts(fn, a0, n)
                    if fp is not None:
                        tmpl, args = fp
                        bad = [norm(x) for x in args if not _is_escaped(fn, x, n)]
                        if not bad:
                            cls = "escaped-interpolation"
                        else:
                            why = "the pattern interpolates %s without regex::escape: text with regex syntax in it (or an empty / blank-padded parameter name) makes Regex::new fail" % ", ".join(bad)
                    elif a0.get("k") == "field" or (a0.get("k") == "path" and a0["segs"][0] in [p["name"].replace("mut ", "").strip() for p in fn["params"]]):
                        # caller supplied pattern: all in-crate callers must have validated it
                        callers_ok = True
                        ncall = 0
                        for g in facts.fns:
                            for c in walk(g["body"]):
                                if (c.get("k") == "mcall" and c["method"] == fn["name"]) or (c.get("k") == "call" and c["func"].get("k") == "path" and c["func"]["segs"][-1] == fn["name"]):
                                    if g is fn:
                                        continue
                                    ncall += 1
                                    vv = validated_vars(g, c)
                                    argt = " ".join(norm(x) for x in c["args"])
                                    if not any(re.search(r"\b%s\b" % re.escape(v), argt) for v in vv):
                                        callers_ok = False
                                        why = "%s passes a pattern built from input text that it never compiled itself: an invalid pattern panics here" % g["name"]
                        if callers_ok:
                            cls = "caller-validated-pattern(%d callers)" % ncall
                    else:
                        why = "pattern of unknown origin"
                else:
                    # RegexSet over a collection of individually compiled patterns
                    m = re.search(r"(?:self|context)\.(\w+)", rt)
                    coll = m.group(1) if m else None
                    okp = coll is not None
                    for g in facts.fns:
                        for c in walk(g["body"]):
                            if c.get("k") == "mcall" and c["method"] == "push" and coll and re.search(r"\.%s\b" % coll, norm(c["recv"])) and "Vec::new" not in norm(c):
                                vv = validated_vars(g, c)
                                argt = " ".join(norm(x) for x in c["args"])
                                if not any(re.search(r"\b%s\b" % re.escape(v), argt) for v in vv):
                                    okp = False
                                    why = "%s pushes a pattern into %s that was not compiled on its own first" % (g["name"], coll)
                    if okp:
                        # every pattern compiled on its own - but a RegexSet is ONE program with a size limit (10 MB by default):
                        # a chunk of many large function-like macros exceeds it although each macro's regex was accepted
                        limited = "size_limit" in norm(R) or any(x.get("k") == "mcall" and x["method"] == "size_limit" for x in walk(fn["body"]))
                        shrinks = coll is not None and any(x.get("k") == "mcall" and x["method"] == "remove" and re.search(r"\.%s\b" % coll, norm(x["recv"])) for x in walk(fn["body"])) \
                            and not any(x.get("k") == "mcall" and x["method"] == "push" and re.search(r"\.%s\b" % coll, norm(x["recv"])) for x in walk(fn["body"]))
                        if limited:
                            cls = "set-of-compiled-patterns(size limit set explicitly)"
                        elif shrinks:
                            cls = "subset-of-a-set-that-was-built"   # the chunk's set existed with one pattern more; a smaller set is a smaller program
                        else:
                            why = "each pattern of the set compiled on its own, but RegexSet::new builds one program for the whole chunk under the default size limit: many large function-like macros in one chunk (50 macros of 40 parameters) make it fail with CompiledTooBig"
                    elif why is None:
                        why = "RegexSet over patterns of unknown origin"
            elif R.get("k") == "mcall" and R["method"] == "next":
                rr = R["recv"]
                if rr.get("k") == "mcall" and rr["method"] in ALWAYS_ONE:
                    cls = "first-piece-of-split"
                elif rr.get("k") == "path" and len(rr["segs"]) == 1:
                    nm = rr["segs"][0]
                    init = _let_init(fn, nm, n)
                    i0 = _strip_refs(init) if init else None
                    while i0 is not None and i0.get("k") == "mcall" and i0["method"] not in SPLIT_FAMILY:
                        i0 = i0["recv"]
                    if i0 is not None and i0.get("k") == "mcall" and i0["method"] in ALWAYS_ONE and first_next.get((nm, init.get("loc"))) is R:
                        cls = "first-piece-of-split"
                    else:
                        why = "`%s.next()` is not the first piece of a split: it is None when the text has no further piece" % nm
                else:
                    why = "next() on an iterator of unknown length"
            elif R.get("k") == "mcall" and R["method"] in ("last", "last_mut", "first", "first_mut"):
                m = re.match(r"^(?:self|context)\.(\w+)$", norm(R["recv"]))
                if m and m.group(1) in nonempty:
                    cls = "never-empty-vector"
                else:
                    why = "%s may be empty" % norm(R["recv"])
            elif R.get("k") == "mcall" and R["method"] == "get" and re.match(r"^\w+\.get\(\d+\)$", rt):
                g = enclosing_guards(fn["body"], n) or []
                if any(c == rt + ".is_none()" and br is False or c == rt + ".is_some()" and br is True for (_, _, c, br) in g):
                    cls = "tested-capture-group"
                else:
                    why = "optional capture group unwrapped without a test"
            elif R.get("k") == "mcall" and R["method"] == "strip_suffix" and R["args"] and R["args"][0].get("k") == "lit":
                suf = str(R["args"][0]["v"])
                base = root_name(R["recv"])
                okb = False
                for c in walk(fn["body"]):
                    if c.get("k") == "for" and any(x.get("k") == "mcall" and x["method"] in ALWAYS_ONE for x in walk(c["iter"])):
                        for x in walk(c["body"]):
                            if x.get("k") == "assignop" and root_name(x["l"]) == base:
                                fp = _format_parts(fn, x["r"], n)
                                if fp and fp[0].replace("{{", "{").replace("}}", "}").endswith(suf):
                                    okb = True
                if okb:
                    cls = "suffix-just-appended"
                else:
                    why = "the stripped suffix is not appended by a preceding loop that runs at least once"
            elif R.get("k") == "mcall" and R["method"] == "captures":
                why = "input text is matched against a regex and the captures are unwrapped: text the regex does not match panics"
            elif rt == "String::from_utf8(output)" and fn["name"] == "process_str":
                # tabled: process_str feeds process() a &str and collects what it writes; process() only ever writes
                # pieces of the input lines (str) and string constants, so the collected bytes are valid UTF-8
                cls = "utf8-of-str-output (tabled: output of process() on &str input is made of str pieces only)"
            else:
                why = "unclassified receiver `%s`" % rt[:60]
            key = "T-CPP-UNWRAP:%s:%s" % (fn["name"], re.sub(r"[^A-Za-z0-9_.:(),&\\]", "", rt)[:50])
            res.inst("%s#%d" % (key, idx), True, {"class": cls or "UNSAFE", "where": facts.where(fn, n)})
            if cls is None:
                res.fail(key, facts.where(fn, n), "%s: unwrap() can panic on input: %s" % (fn["name"], why), {"receiver": rt[:120]})


# ----------------------------------------------------------------------------- C01 / C15 (flag knowledge at joins)


FLAGS_JOIN_EXCEPTIONS = {
    "T-FLAGS-JOIN:generate_plusplus:.ifend":
        "both edges into this label (`BNE .ifend` after INC of the low byte, and the fall-through after INC of the high byte) are emitted by "
        "generate_plusplus itself, two lines above; what N/Z mean at the join is evaluated for all 65536 values by T-FLAGS-VALUE "
        "(Z describes the 16-bit value; the N part of the claim is a recorded finding there)",
}


@rule("T-FLAGS-JOIN", floor=10,
      text="a label is a join: control reaches it from every branch that names it, each with its own N/Z.  label() therefore forgets the flag "
           "knowledge (T-LABEL-KILL), and nothing may put specific knowledge back before an instruction that establishes it has been emitted: "
           "an assignment of `flags` to anything but Unknown directly after a label (e.g. from a snapshot taken when the condition had been "
           "evaluated) is only true for one of the branches that reach the label")
def t_flags_join(facts, res, tier):
    import genmodel
    from walker import EnumV, Sym
    seen = {}
    for fn in genmodel.gen_fns(facts):
        if fn["name"] == "new":
            continue
        try:
            paths = genmodel.fn_paths(facts, fn)
        except Exception:
            continue
        for kind, val, st in paths:
            after_label = None
            for ev in st.events:
                k = ev["kind"]
                if k == "label":
                    after_label = ev
                    key = "T-FLAGS-JOIN:%s:%s" % (fn["name"], re.sub(r"\{\}.*$", "", str(getattr(ev["args"][0], "template", "label"))) if ev["args"] else "label")
                    if key not in seen:
                        seen[key] = None
                elif k in ("asm", "sasm", "sasm_protected", "call", "inline", "push_code", "asm_save_y", "asm_restore_y"):
                    after_label = None
                elif k == "set" and ev["field"] == "flags" and after_label is not None:
                    v = ev["value"]
                    unknown = isinstance(v, EnumV) and v.variant == "Unknown"
                    if not unknown:
                        lab = after_label["args"][0] if after_label["args"] else None
                        key = "T-FLAGS-JOIN:%s:%s" % (fn["name"], re.sub(r"\{\}.*$", "", str(getattr(lab, "template", "label"))))
                        seen[key] = (fn, ev["node"], expr_text(ev["node"]))
                    after_label = None
    for key, bad in sorted(seen.items()):
        res.inst(key, True)
        if bad and key in FLAGS_JOIN_EXCEPTIONS:
            res.note("exception %s: %s" % (key, FLAGS_JOIN_EXCEPTIONS[key]))
            continue
        if bad:
            fn, node, txt = bad
            res.fail(key, facts.where(fn, node),
                     "%s assigns flag knowledge right after a label without emitting an instruction that establishes it (`%s`): the label is also reached "
                     "by branches taken with other flags (for `if (a && b) .. else ..` the else label is reached from the test of a and from the test of b), "
                     "so code after it that relies on the knowledge omits a needed load or compare" % (fn["name"], txt[:60]))


# ----------------------------------------------------------------------------- C01 / C18 (two-pass evaluation)

SIDE_EFFECT_CALLEES = {"generate_function_call": "calls the function (JSR or inline expansion)",
                       "generate_plusplus": "increments / decrements the operand"}


@rule("T-SECOND-PASS", floor=5,
      text="a 16-bit expression is evaluated twice, once per byte (generate_expr with second_time = true for the high byte).  Whatever has an "
           "effect on the program's state - calling a function, a pre-increment/decrement, queueing a post-increment/decrement - is emitted in "
           "the first pass only: on every path of generate_expr that reaches such an emission `second_time` is known to be false")
def t_second_pass(facts, res, tier):
    import genmodel
    from walker import Sym
    fn = facts.fn("generate_expr", genmodel.GEN_QUAL)
    if not any(p["name"].replace("mut ", "").strip() == "second_time" for p in fn["params"]):
        raise AnchorMissing("generate_expr has no `second_time` parameter")
    found = {}
    for kind, val, st in genmodel.fn_paths(facts, fn):
        d = genmodel.domain_of(st, Sym("second_time", "bool"), facts, universe=[True, False])
        may_second = d is None or True in d
        for ev in st.events:
            what = None
            if ev["kind"] == "call" and ev["callee"] in SIDE_EFFECT_CALLEES:
                what = ev["callee"]
            elif ev["kind"] == "fieldpush" and ev.get("field") == "deferred_plusplus":
                what = "deferred_plusplus.push"
            if what is None:
                continue
            variant = None
            a, e = st.cons.get("expr", (None, frozenset()))
            variant = "|".join(sorted(a)) if a else "*"
            key = "T-SECOND-PASS:%s:%s" % (what, variant)
            cur = found.setdefault(key, {"bad": None, "paths": 0})
            cur["paths"] += 1
            if may_second and cur["bad"] is None:
                cur["bad"] = ev
    # nested evaluations must be told that this is the second pass
    import genmodel as _gm
    EVALUATORS = {f2["name"] for f2 in _gm.gen_fns(facts) if f2["name"].startswith("generate_") and
                  any(p["name"].replace("mut ", "").strip() in ("expr", "condition", "alternatives") and "Expr" in p["ty"] and "ExprType" not in p["ty"] for p in f2["params"])}
    EVALUATORS.discard("generate_sizeof")   # sizeof does not evaluate its operand
    nested = {}
    pnames = [p["name"].replace("mut ", "").strip() for p in fn["params"] if p["name"] != "self"]
    for kind, val, st in genmodel.fn_paths(facts, fn):
        d = genmodel.domain_of(st, Sym("second_time", "bool"), facts, universe=[True, False])
        if not (d is None or True in d):
            continue
        for ev in st.events:
            if ev["kind"] != "call" or ev["callee"] not in EVALUATORS:
                continue
            g = ev["callee"]
            gp = [p["name"].replace("mut ", "").strip() for p in facts.fn(g, genmodel.GEN_QUAL)["params"] if p["name"] != "self"]
            if "second_time" in gp:
                a = ev["args"][gp.index("second_time")] if gp.index("second_time") < len(ev["args"]) else None
                from walker import Const as _C
                okk = (isinstance(a, Sym) and a.key == "second_time") or (isinstance(a, _C) and a.v is True)
                shape = "second_time" if isinstance(a, Sym) and a.key == "second_time" else (repr(a.v).lower() if isinstance(a, _C) else (a.key if isinstance(a, Sym) else "?"))
                key = "T-SECOND-PASS:nested:%s(second_time=%s)" % (g, shape)
            else:
                okk = False
                key = "T-SECOND-PASS:nested:%s(no such parameter)" % g
            cur = nested.setdefault(key, {"ok": okk, "node": ev["node"], "paths": 0})
            cur["paths"] += 1
    # an operand evaluated a second time on the same path (the function's own high-byte pass of a 16-bit compound assignment)
    # is evaluated with second_time = true
    from walker import Const as _C2
    reeval = {}
    for kind, val, st in genmodel.fn_paths(facts, fn):
        seen_ops = {}
        for ev in st.events:
            if ev["kind"] != "call" or ev["callee"] not in EVALUATORS:
                continue
            g = ev["callee"]
            gfn = facts.fn(g, genmodel.GEN_QUAL)
            gp = [p["name"].replace("mut ", "").strip() for p in gfn["params"] if p["name"] != "self"]
            if "second_time" not in gp or not ev["args"]:
                continue
            operand = repr(ev["args"][0])
            a = ev["args"][gp.index("second_time")] if gp.index("second_time") < len(ev["args"]) else None
            if (g, operand) in seen_ops:
                if isinstance(a, _C2):
                    dom = {a.v}
                elif isinstance(a, Sym):
                    dom = genmodel.domain_of(st, a, facts, universe=[True, False]) or {True, False}
                else:
                    dom = {True, False}
                key = "T-SECOND-PASS:re-evaluation:%s(%s)" % (g, re.sub(r"[^A-Za-z0-9_.]", "", operand)[:30])
                cur = reeval.setdefault(key, {"ok": True, "node": ev["node"], "paths": 0, "arg": None})
                cur["paths"] += 1
                if dom != {True}:
                    cur["ok"] = False
                    cur["node"] = ev["node"]
                    cur["arg"] = expr_text(ev["node"]["args"][gp.index("second_time")]) if gp.index("second_time") < len(ev["node"].get("args", [])) else "?"
            seen_ops[(g, operand)] = True
    for key, d in sorted(reeval.items()):
        res.inst(key, True, {"paths": d["paths"]})
        if not d["ok"]:
            res.fail(key, facts.where(fn, d["node"]),
                     "generate_expr evaluates the same operand a second time on one path (its own high-byte pass) with second_time = `%s`, which is not "
                     "known to be true there: a function call or increment inside the operand is emitted twice (`arr16[X] += f()` calls f twice)" % d["arg"])
    for key, d in sorted(nested.items()):
        res.inst(key, True, {"paths": d["paths"]})
        if not d["ok"]:
            res.fail(key, facts.where(fn, d["node"]),
                     "on a path where this may be the high-byte pass of a 16-bit evaluation, generate_expr starts the nested evaluation `%s` without telling it "
                     "so: function calls and increments inside that operand are emitted again (`s = (f(), 3)`, `s = c ? f() : 1`)" % key.split("nested:")[1])
    for key, d in sorted(found.items()):
        res.inst(key, True, {"paths": d["paths"]})
        if d["bad"] is not None:
            what = key.split(":")[1]
            res.fail(key, facts.where(fn, d["bad"]["node"]),
                     "generate_expr reaches %s (%s) on a path where `second_time` may be true: in the high-byte pass of a 16-bit expression the effect is "
                     "emitted a second time (`short s; s = f();` calls f twice and stores the second result in the high byte)" % (
                         what, SIDE_EFFECT_CALLEES.get(what, "queues a post-increment/decrement")))


# ----------------------------------------------------------------------------- C13 (user labels and goto)


@rule("T-GOTO-LABELS", floor=3,
      text="user labels and goto: (a) a goto is emitted only for a label the function defines (the emitting code consults the function's labels), "
           "(b) a user label is defined once per function (the emitting code records it and rejects a repetition), (c) the spelling of user "
           "labels in the output cannot coincide with a label the generator makes up (`.for1`, `.ifend2`, `.endofinline`...)")
def t_goto_labels(facts, res, tier):
    import genmodel
    from walker import Fmt, EnumV, Sym
    user_tmpl = None
    goto_fn = goto_node = None
    label_fn = label_node = None
    generated = set()
    for fn in genmodel.gen_fns(facts):
        if fn["name"] == "new":
            continue
        try:
            paths = genmodel.fn_paths(facts, fn)
        except Exception:
            continue
        for kind, val, st in paths:
            for ev in st.events:
                if ev["kind"] == "label" and ev["args"] and isinstance(ev["args"][0], Fmt):
                    t = ev["args"][0].template
                    if re.match(r"^\.?\{\}$", t):
                        user_tmpl = t
                        label_fn, label_node = fn, ev["node"]
                    else:
                        generated.add(t)
                if ev["kind"] == "asm" and len(ev["args"]) > 1 and isinstance(ev["args"][0], EnumV) and ev["args"][0].variant == "JMP":
                    op = ev["args"][1]
                    if isinstance(op, EnumV) and op.variant == "Label" and op.payload and isinstance(op.payload[0], Fmt) and re.match(r"^\.?\{\}$", op.payload[0].template):
                        a0 = op.payload[0].args[0] if op.payload[0].args else None
                        if isinstance(a0, Sym) and a0.key in [p["name"] for p in fn["params"]]:
                            goto_fn, goto_node = fn, ev["node"]
    if goto_fn is None or label_fn is None:
        raise AnchorMissing("user label definition or goto emission not found (label_fn=%s goto_fn=%s)" % (label_fn and label_fn["name"], goto_fn and goto_fn["name"]))

    def consults_labels(fn, want_insert):
        for n in walk(fn["body"]):
            if n.get("k") == "mcall" and n["method"] in (("insert",) if want_insert else ("contains", "contains_key", "get", "iter", "any")):
                t = norm(n["recv"])
                if "label" in t.lower():
                    return True
        return False

    key = "T-GOTO-LABELS:goto:target-defined"
    res.inst(key, True, {"emitted_by": goto_fn["name"]})
    if not consults_labels(goto_fn, False):
        res.fail(key, facts.where(goto_fn, goto_node),
                 "%s emits `JMP .<name>` for a goto without looking the name up among the labels of the function: `goto nowhere;` is accepted and the assembler is handed an undefined symbol" % goto_fn["name"])
    key = "T-GOTO-LABELS:label:defined-once"
    res.inst(key, True, {"emitted_by": label_fn["name"]})
    if not consults_labels(label_fn, True):
        res.fail(key, facts.where(label_fn, label_node),
                 "%s emits a user label without recording it: the same label written twice in a function is emitted twice" % label_fn["name"])
    key = "T-GOTO-LABELS:label:namespace"
    clash = sorted(t for t in generated if re.match(r"^\.[A-Za-z_][A-Za-z0-9_]*\{\}$", t) or re.match(r"^\.[A-Za-z_][A-Za-z0-9_]*$", t))
    res.inst(key, True, {"user_template": user_tmpl, "generated_templates": len(generated)})
    if clash and re.match(r"^\.?\{\}$", user_tmpl or ""):
        res.fail(key, facts.where(label_fn, label_node),
                 "user labels are written as `%s` and the generator's own labels as %s ...: a user label spelled like one of them (`for1:`) is defined twice or captures the generator's branches" % (
                     user_tmpl, ", ".join("`%s`" % c.replace("{}", "<n>") for c in clash[:4])))


# ----------------------------------------------------------------------------- self-check of the path walker

_visited_nodes = set()


def _install_visit_probe():
    import walker
    if getattr(walker.Walker, "_probe_installed", False):
        return
    orig_eval = walker.Walker.eval

    def ev(self, n, state):
        _visited_nodes.add(id(n))
        return orig_eval(self, n, state)
    walker.Walker.eval = ev
    walker.Walker._probe_installed = True


_install_visit_probe()


# branches the refinement proves dead (confirmed by reading); keyed by function and the text of the arm / condition
DEAD_BRANCHES = {
    "generate_arithm|arm|ExprType::Immediate(l)": "inside the arm where `right` is not Immediate; right2 is right with A replaced by Tmp",
    "generate_arithm|arm|ExprType::A(s)": "right2 never is A: an accumulator right operand was stored to cctmp just above",
    "generate_plusplus|then|((v.var_type==VariableType::Short)||((v.var_type==": "the enclosing arm already fixed var_type to another variant",
    "generate_plusplus|then|((v.var_type==VariableType::CharPtrPtr)||(v.var_ty": "the enclosing arm already fixed var_type to another variant",
    "generate_plusplus|then|wide": "the else side of `if !superchip && wide`: without the atari2600 feature `superchip` is constantly false, so `wide` is false here (with the feature the branch is live and entered)",
    "generate_condition_ex|arm|ExprType::Tmp(_)": "under `flags_ok(&self.flags, left)`, which is never true for a cctmp operand",
    "generate_condition_ex|then|letExprType::Immediate(v)=left": "under `flags_ok(&self.flags, left)`, which is never true for a constant",
    "generate_condition_ex|then|(((operator==Operation::Neq)&&(v!=0))||((operator=": "inside the dead branch above",
    "generate_condition_ex|arm|ExprType::Tmp(s)": "under `flags_ok(&self.flags, left)`, which is never true for a cctmp operand",
    "generate_condition_ex|arm|_": "under `flags_ok(..)`: the remaining operand kinds were all matched by the arms before",
    "generate_simple_condition|arm|_": "the operator was tested to be one of the six comparisons just above",
    "generate_simple_condition|then|letExprType::Tmp(_)=expr": "under `flags_ok(&self.flags, &expr)`, which is never true for a cctmp operand",
}


@rule("T-WALKER-COVERAGE", floor=500,
      text="self-check of the analysis: the path walker enters every branch of every generator function - `if` arms, `else` arms and `match` "
           "arms - except those tabled as dead (the refinement proves them infeasible; each confirmed by reading).  Any other branch that is "
           "never entered means paths are being lost (as happened once with a mis-resolved `None` pattern), the path rules would pass "
           "vacuously there, and the check fails")
def t_walker_coverage(facts, res, tier):
    import genmodel
    tot = 0
    miss = []
    dead = []
    for fn in genmodel.gen_fns(facts):
        if fn["name"] == "new":
            continue
        genmodel._cache.pop(("paths", id(facts), fn["name"], fn["qual"]), None)
        try:
            genmodel.fn_paths(facts, fn)
        except Exception as e:
            res.fail("T-WALKER-COVERAGE:%s:INTERNAL" % fn["name"], facts.where(fn), "path enumeration failed: %s" % e)
            continue
        for n in walk(fn["body"]):
            items = []
            if n.get("k") == "match":
                items = [("arm", pat_text(a["pat"])[:50], a["body"]) for a in n["arms"]]
            elif n.get("k") == "if":
                items = [(part, re.sub(r"\s+", "", expr_text(n["cond"]))[:50], n[part]) for part in ("then", "else") if n.get(part) is not None]
            for kind, text, body in items:
                tot += 1
                res.inst("T-WALKER-COVERAGE:%s:%d" % (fn["name"], tot), True)
                if id(body) not in _visited_nodes:
                    k2 = "%s|%s|%s" % (fn["name"], kind, text)
                    if k2 in DEAD_BRANCHES:
                        dead.append(k2)
                    else:
                        miss.append((k2, facts.where(fn, n)))
    res.note("walker coverage: %d of %d branches entered; %d tabled as dead: %s" % (tot - len(miss) - len(dead), tot, len(dead), "; ".join(sorted(set(dead)))))
    for k2, where in miss:
        res.fail("T-WALKER-COVERAGE:not-entered:%s" % k2, where,
                 "the path walker never enters this branch and it is not tabled as dead: the path rules do not see the code in it (either the "
                 "walker loses paths here, or the branch is dead code that has to be confirmed and tabled)")


# ----------------------------------------------------------------------------- C07 / C08 (directive recognition)

DIRECTIVE_WORDS = {"#ifdef", "#ifndef", "#undef", "#define", "#include", "#if", "#elif", "#else", "#endif", "#error"}


@rule("T-CPP-DIRECTIVE-EXACT", floor=6,
      text="the preprocessor recognises a directive by its whole first word: in the directive dispatch of process() no directive is selected by "
           "`line.starts_with(\"#word\")` (which also accepts `#undefine X` as `#undef X` and `#ifdefined` as `#ifdef`), only by comparing the "
           "first word or matching on it")
def t_cpp_directive_exact(facts, res, tier):
    import rules_cpp
    fn, blk, paths, state_var = rules_cpp.process_paths(facts)
    seen = set()
    for n in walk(blk["then"]):
        k = n.get("k")
        if k == "mcall" and n["method"] == "starts_with" and n["args"] and n["args"][0].get("k") == "lit" and str(n["args"][0]["v"]) in DIRECTIVE_WORDS:
            w = str(n["args"][0]["v"])
            key = "T-CPP-DIRECTIVE-EXACT:%s" % w
            if key in seen:
                continue
            seen.add(key)
            res.inst(key, True, {"how": "prefix"})
            res.fail(key, facts.where(fn, n),
                     "the directive %s is recognised by `%s.starts_with(\"%s\")`: any longer word with that prefix (`%sine X`, `%sined`) is taken for it" % (
                         w, expr_text(n["recv"]), w, w, w))
        if k == "binary" and n["op"] == "==":
            for side in (n["l"], n["r"]):
                if side.get("k") == "lit" and str(side.get("v")) in DIRECTIVE_WORDS:
                    key = "T-CPP-DIRECTIVE-EXACT:%s" % side["v"]
                    if key not in seen:
                        seen.add(key)
                        res.inst(key, True, {"how": "whole word"})
        if k == "match":
            for a in n["arms"]:
                t = pat_text(a["pat"])
                for w in DIRECTIVE_WORDS:
                    if '"%s"' % w in t:
                        key = "T-CPP-DIRECTIVE-EXACT:%s" % w
                        if key not in seen:
                            seen.add(key)
                            res.inst(key, True, {"how": "match arm"})


# ----------------------------------------------------------------------------- C08 (parameter substitution templates)


@rule("T-CPP-TEMPLATE", floor=1,
      text="where the preprocessor turns a macro parameter into a capture-group reference of the replacement template, the reference is braced "
           "(`${name}`): an unbraced `$name` swallows identifier characters that follow it in the body (`n##_var` became the unknown group "
           "`$n_var`, i.e. nothing)")
def t_cpp_template(facts, res, tier):
    fn = facts.fn("process", "")
    n_sites = 0
    for n in walk(fn["body"]):
        if n.get("k") == "macro" and n["name"] == "format" and n.get("args") and n["args"][0].get("k") == "lit":
            t = str(n["args"][0]["v"])
            if t.startswith("$$") or t.startswith("${{") or re.match(r"^\$\$?\{", t):
                n_sites += 1
                key = "T-CPP-TEMPLATE:process:%d" % n_sites
                res.inst(key, True, {"template": t})
                if not re.match(r"^\$\$?\{\{\{[^}]*\}\}\}$", t):
                    res.fail("T-CPP-TEMPLATE:process:unbraced", facts.where(fn, n),
                             "the parameter reference is built with the template %r, i.e. `$name` without braces: in a body such as `n##_var` the regex crate "
                             "reads `$n_var` as a group that does not exist and substitutes nothing" % t)
    if n_sites == 0:
        raise AnchorMissing("no `$`-reference template found in process()")


# ----------------------------------------------------------------------------- C06 (the location triple travels together)


@rule("T-LOC-TRIPLE", floor=3,
      text="an error whose file name and line come from an entry of the line map also takes its `included from` part from that entry: no "
           "Error::Syntax / Error::Compiler literal fills `filename`/`line` from `mapped_lines[..]` (directly or through locals) and "
           "`included_in` with a literal None - except the fall-back for an empty map")
def t_loc_triple(facts, res, tier):
    n_sites = 0
    for fn in facts.fns:
        if not fn["file"].endswith(("/compile.rs", "/error.rs")):
            continue
        # locals assigned from mapped_lines[..]
        from_map = set()
        for n in walk(fn["body"]):
            if n.get("k") in ("assign", "let"):
                rhs = n.get("r") if n.get("k") == "assign" else n.get("init")
                if rhs is not None and "mapped_lines" in norm(rhs):
                    if n.get("k") == "assign":
                        r = root_name(n["l"])
                        if r:
                            from_map.add(r)
                    else:
                        from_map |= pat_names(n.get("pat"))
        for n in walk(fn["body"]):
            if n.get("k") != "struct":
                continue
            name = "::".join(n.get("segs", [])) if n.get("segs") else n.get("name", "")
            flds = {f.get("name"): f.get("e", f.get("value")) for f in n.get("fields", [])}
            if "included_in" not in flds or "filename" not in flds:
                continue
            fv = flds["filename"]
            ftxt = norm(fv) if isinstance(fv, dict) else str(fv)
            uses_map = "mapped_lines" in ftxt or (isinstance(fv, dict) and any(root_name(x) in from_map for x in walk(fv) if x.get("k") == "path"))
            if not uses_map:
                continue
            n_sites += 1
            key = "T-LOC-TRIPLE:%s:%d" % (fn["name"], n_sites)
            res.inst(key, True, {"where": facts.where(fn, n)})
            iv = flds["included_in"]
            itxt = norm(iv) if isinstance(iv, dict) else str(iv)
            if itxt == "None":
                res.fail("T-LOC-TRIPLE:%s:included_in-none" % fn["name"], facts.where(fn, n),
                         "%s reports an error with the file name and line of a line-map entry but `included_in: None`: for a defect inside an included file "
                         "the including file and line are lost (only this kind of error loses them)" % fn["name"])
    if n_sites == 0:
        raise AnchorMissing("no error literal built from the line map found")


# ----------------------------------------------------------------------------- C06 (every mapped line is a line)


@rule("T-LINE-TERMINATED", floor=1,
      text="every text line the preprocessor writes (one line-map entry each) ends with a newline in the output, so that output line k is map "
           "entry k: the newline added after a line that lacks one may only be withheld for the last line of the top-level input, never inside "
           "an included file (whose last line would be glued to the next line of the includer while both keep their own map entry)")
def t_line_terminated(facts, res, tier):
    fn = facts.fn("process", "")
    sites = 0
    for n in walk(fn["body"]):
        if n.get("k") != "if":
            continue
        then_t = norm(n["then"])
        if not re.match(r'^\{?output\.write_all\([^;]*\)\??;?\}?$', then_t):
            continue
        ct = norm(n["cond"])
        if "ends_with" not in ct:
            continue
        sites += 1
        key = "T-LINE-TERMINATED:process:%d" % sites
        res.inst(key, True, {"condition": ct})
        restricted = "has_lf" in ct
        covers_includes = "includes_stack" in ct or "included" in ct
        if restricted and not covers_includes:
            res.fail("T-LINE-TERMINATED:process:include-last-line", facts.where(fn, n),
                     "the newline after a line that lacks one is only written when the source line had one (`%s`): the last line of an included file without "
                     "a final newline is glued to the next line of the including file, and every later line is reported one line too early" % ct[:80])
        # truth table (round 20): with the line unterminated, the source line without a line feed and the include stack not empty, the
        # condition must hold whatever the other atoms are - an include disjunct narrowed by another test (`!asm && ..`) withholds the
        # newline for some included files
        bad = _lt_narrowed(n["cond"])
        res.inst("T-LINE-TERMINATED:process:%d:truth-table" % sites, True, {"free-atoms": bad[1]})
        if covers_includes and bad[0] is not None:
            res.fail("T-LINE-TERMINATED:process:include-narrowed", facts.where(fn, n),
                     "inside an included file whose last line lacks a newline the condition `%s` is false when %s: that line is glued to the next "
                     "output line while both keep their map entry, and every later line is reported one line too early" % (ct[:110], bad[0]))
    if sites == 0:
        raise AnchorMissing("the conditional newline after a text line was not found in process()")


def _lt_atoms(e, out):
    k = e.get("k")
    if k == "binary" and e["op"] in ("&&", "||"):
        _lt_atoms(e["l"], out); _lt_atoms(e["r"], out)
    elif k == "unary" and e["op"] == "!":
        _lt_atoms(e["e"], out)
    elif k == "paren":
        _lt_atoms(e["e"], out)
    else:
        t = expr_text(e)
        if t not in out:
            out.append(t)


def _lt_fixed(t):
    """value of an atom in the situation judged: unterminated line, no line feed in the source, inside an include"""
    if "ends_with" in t:
        return False
    if t == "has_lf":
        return False
    if "includes_stack" in t:
        if t.endswith(".is_empty()"):
            return False
        if re.search(r"\.len\(\)(>0|!=0|>=1)\)?$", t):
            return True
        if re.search(r"\.len\(\)(==0|<1)\)?$", t):
            return False
        if t.endswith(".last().is_some()"):
            return True
        if t.endswith(".last().is_none()"):
            return False
    return None


def _lt_eval(e, val):
    k = e.get("k")
    if k == "binary" and e["op"] == "&&":
        return _lt_eval(e["l"], val) and _lt_eval(e["r"], val)
    if k == "binary" and e["op"] == "||":
        return _lt_eval(e["l"], val) or _lt_eval(e["r"], val)
    if k == "unary" and e["op"] == "!":
        return not _lt_eval(e["e"], val)
    if k == "paren":
        return _lt_eval(e["e"], val)
    return val[expr_text(e)]


def _lt_narrowed(cond):
    import itertools
    atoms = []
    _lt_atoms(cond, atoms)
    fixed = {a: _lt_fixed(a) for a in atoms}
    free = [a for a in atoms if fixed[a] is None]
    if len(free) > 8:
        return ("more than eight free atoms", free)
    for combo in itertools.product((False, True), repeat=len(free)):
        val = dict(fixed)
        val.update(dict(zip(free, combo)))
        if not _lt_eval(cond, val):
            return (", ".join("%s is %s" % (a, str(v).lower()) for a, v in zip(free, combo)) or "the include stack is not empty", free)
    return (None, free)


# ----------------------------------------------------------------------------- C02 (redundant loads and the flags they set)


@rule("T-OPT-LOAD-SIBLINGS", floor=3,
      text="the optimiser removes a load whose operand the register already holds.  A load also sets N/Z, which the next branch may test, so "
           "each of the three sibling removals (LDA, LDX, LDY) is conditioned on the optimiser's own flag knowledge (`flags == FlagsState::<reg>`, "
           "or a look-ahead showing the flags are overwritten before they are used): removing `LDX b` after `LDY c` lets `BEQ` test c")
def t_opt_load_siblings(facts, res, tier):
    fn = facts.fn("optimize", "AssemblyCode")
    found = {}
    polar = {}
    for n in walk(fn["body"]):
        if n.get("k") != "match" or "mnemonic" not in norm(n["e"]):
            continue
        for a in n["arms"]:
            pt = pat_text(a["pat"])
            m = re.match(r"^(?:AsmMnemonic::)?(LDA|LDX|LDY)$", pt.strip())
            if not m:
                continue
            reg = m.group(1)
            for x in walk(a["body"]):
                if x.get("k") == "assign" and root_name(x["l"]) == "remove_second":
                    g = enclosing_guards(a["body"], x) or []
                    conds = [c for (_, _, c, _) in g]
                    # must compare the register knowledge with the operand ...
                    if not any("dasm_operand" in c for c in conds):
                        continue
                    found.setdefault(reg, []).append((x, conds))
                    polar.setdefault(reg, []).append([(c, br) for (kk, _, c, br) in g if kk == "if"])
    # a load that is removed although the flags were not those of its register (the look-ahead path) has not set them:
    # the arm may claim `flags = <reg>` only for a load that stays
    from scopes import scoped as _scoped
    for n, env, doms in _scoped(fn):
        if n.get("k") == "assign" and root_name(n["l"]) == "flags":
            m = re.match(r"^FlagsState::([AXY])$", norm(n["r"]))
            if not m:
                continue
            armreg = None
            arm_at = None
            for i_d, d in enumerate(doms):
                if d[0] == "arm" and "mnemonic" in norm(d[1]) and isinstance(d[2], dict):
                    pt = pat_text(d[2]).strip()
                    mm = re.match(r"^(?:AsmMnemonic::)?(LDA|LDX|LDY)$", pt)
                    if mm:
                        armreg = mm.group(1)
                        arm_at = i_d
            if armreg is None or armreg[-1] != m.group(1):
                continue
            # removals in this arm that are decided although flags == reg does not hold (no such test, or its else branch)
            want = "flags==FlagsState::%s" % m.group(1)
            unguarded = [gs for gs in polar.get(armreg, []) if not any(want in c0.replace(" ", "").replace("(", "").replace(")", "") and br is True for (c0, br) in gs)]
            inner = doms[arm_at + 1:]
            kept_only = any(d[0] == "cond" and ((d[2] and norm(d[1]).replace(" ", "") == "!remove_second") or (not d[2] and norm(d[1]).replace(" ", "") == "remove_second")) for d in inner)
            key = "T-OPT-LOAD-SIBLINGS:%s:claim" % armreg
            res.inst(key, True, {"removals_without_flag_test": len(unguarded), "claim_only_if_kept": kept_only})
            if unguarded and not kept_only:
                res.fail(key, facts.where(fn, n), "the %s arm of optimize() records `flags = FlagsState::%s` even when it has just decided to delete the load on its look-ahead path (where the flags were not %s's): the next rule that trusts the flag knowledge deletes a load a branch depends on (`q = 0; X = 5; a = 0; b = 0; if (!b) r = 1;` branches on X)" % (armreg, m.group(1), m.group(1)))
    for reg in ("LDA", "LDX", "LDY"):
        key = "T-OPT-LOAD-SIBLINGS:%s" % reg
        res.inst(key, True, {"removal_sites": len(found.get(reg, []))})
        if reg not in found:
            res.fail(key + ":ANCHOR-MISSING", facts.where(fn), "the redundant-%s removal was not found in optimize()" % reg)
            continue
        for x, conds in found[reg]:
            if not any("flags" in c for c in conds):
                res.fail(key, facts.where(fn, x),
                         "the redundant %s is removed without consulting the optimiser's flag knowledge (its siblings do): after the removal the N/Z flags are "
                         "those of whatever was loaded last, and a following BEQ/BNE/BMI/BPL tests the wrong value (`X = b; Y = c; X = b; if (X)` branches on c)" % reg,
                         {"guards": conds})
                break


# ----------------------------------------------------------------------------- C04 / C03 (zero page and constant offsets)


@rule("T-ZP-OFFSET", floor=6,
      text="in asm(), wherever an Absolute, AbsoluteX or AbsoluteY operand is given the 2-byte zero-page form (or refused because the zero-page form "
           "is the only one the mnemonic has), the decision is taken on the operand's address - the zero-page predicate applied to the variable and "
           "its offset - not on the memory class alone: a variable at a constant address, or indexed past $FF by a constant "
           "(`char *const p = 0xf0; p[0x20]`, `const short TAB[4] = 0x1800; TAB[X]`), is assembled in absolute mode (3 bytes)")
def t_zp_offset(facts, res, tier):
    import genmodel
    fn = facts.fn("asm", genmodel.GEN_QUAL)
    arms = {}
    for n in walk(fn["body"]):
        if n.get("k") == "match":
            for a in n["arms"]:
                m0 = re.match(r"^ExprType::(Absolute[XY]?)\(", pat_text(a["pat"]).replace(" ", ""))
                if m0:
                    arms[m0.group(1)] = a
    if "Absolute" not in arms:
        raise AnchorMissing("asm(): arm for ExprType::Absolute not found")
    sites = 0
    for kind, arm in sorted(arms.items()):
        for n in walk(arm["body"]):
            if n.get("k") != "if":
                continue
            ct = norm(n["cond"])
            def sets2(b):
                # nb_bytes = 2 somewhere in this branch (directly or in a nested match on the mnemonic)
                return any(x.get("k") == "assign" and root_name(x["l"]) == "nb_bytes" and x["r"].get("k") == "lit" and x["r"].get("v") == 2 for x in walk(b))
            unavailable = "Err" in norm(n["then"]) and "zeropage" in norm(n["then"]).lower()
            if not (sets2(n["then"]) or unavailable) or "eropage" not in ct:
                continue
            sites += 1
            key = "T-ZP-OFFSET:asm:%s:%d" % (kind, sites)
            res.inst(key, True, {"arm": kind, "condition": ct, "decides": "addressing mode available" if unavailable and not sets2(n["then"]) else "2-byte form"})
            if not re.search(r"\boff(set)?\b", ct):
                res.fail("T-ZP-OFFSET:asm:%s:offset-ignored" % kind, facts.where(fn, n),
                         "asm() decides between the zero-page and the absolute form of an %s operand on `%s` alone: the memory class says nothing about a "
                         "variable at a constant address (`const short TAB[4] = 0x1800; TAB[X]` is absolute,X: 3 bytes), nor about a constant offset that "
                         "leaves the page (`p+32` with p = $F0)" % (kind, ct))
    if sites == 0:
        raise AnchorMissing("asm(): no zero-page size decision found")
