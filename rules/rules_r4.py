"""Rules added after the fourth round of independently seeded changes."""
import re

from astlib import walk, expr_text, pat_text, children, AnchorMissing
from core import rule
from rules_term import root_name, pat_names
from rules_r3 import norm, enclosing_guards


# ----------------------------------------------------------------------------- C01 / C15 (ownership of cctmp)


TMP_EXCEPTIONS = {}


@rule("T-TMP-GUARD", floor=8,
      text="cctmp is a single scratch byte shared by expression evaluation (ExprType::Tmp), the saved Y of indexed accesses and the operand "
           "staging of X/Y arithmetic.  Every instruction that writes it (STA/STX/STY cctmp, asm_save_y) is emitted on a path that "
           "takes part in the ownership protocol: `tmp_in_use` is known false at the write, or tested later before anything can change it, or at "
           "least tested / claimed / released somewhere on the path.  A path that writes cctmp without ever looking at `tmp_in_use` overwrites "
           "whatever is parked there (decided part: participation; not decided: that every participating path orders test and write correctly)")
def t_tmp_guard(facts, res, tier):
    import genmodel
    from walker import EnumV, Const
    seen = {}
    for fn in genmodel.gen_fns(facts):
        if fn["name"] in ("new", "asm_save_y", "asm_restore_y", "asm", "sasm", "sasm_protected"):
            continue
        try:
            paths = genmodel.fn_paths(facts, fn)
        except Exception:
            continue
        for kind, val, st in paths:
            if genmodel.is_error_exit(val):
                continue
            for ev in st.events:
                what = None
                if ev["kind"] == "asm" and len(ev["args"]) > 1:
                    a0, a1 = ev["args"][0], ev["args"][1]
                    m = genmodel.domain_of(st, a0, facts, universe=facts.enum_variants("AsmMnemonic"))
                    if m and m <= {"STA", "STX", "STY"} and isinstance(a1, EnumV) and a1.variant == "Tmp":
                        what = "/".join(sorted(m)) + " cctmp"
                elif ev["kind"] == "asm_save_y":
                    what = "asm_save_y (STY cctmp)"
                if what is None:
                    continue
                key = "T-TMP-GUARD:%s:%s" % (fn["name"], what.split(" ")[0])
                d = seen.setdefault(key, {"fn": fn, "ok": 0, "bad": None, "what": what})
                know = ev.get("know", {}).get("tmp_in_use", {True, False})
                if know != {False} and not ev.get("assigned", {}).get("tmp_in_use"):
                    # tested later on the same path, before anything could change it (same version of the field)
                    kk = "self.tmp_in_use@%d" % ev.get("ver", {}).get("tmp_in_use", 0)
                    a, e2 = st.cons.get(kk, (None, frozenset()))
                    if a is not None and set(a) == {False}:
                        know = {False}
                if know != {False}:
                    # weaker, still necessary: the path takes part in the ownership protocol at all - it tests
                    # `tmp_in_use` somewhere (any version of the field) or assigns it (claims / releases cctmp)
                    aware = any(k2.startswith("self.tmp_in_use@") for k2 in st.cons) or any(
                        e3["kind"] == "set" and e3["field"] == "tmp_in_use" for e3 in st.events)
                    if aware:
                        know = {False}
                if know == {False}:
                    d["ok"] += 1
                elif d["bad"] is None:
                    d["bad"] = ev
    for key, d in sorted(seen.items()):
        res.inst(key, True, {"guarded_paths": d["ok"]})
        if d["bad"] is not None:
            if key in TMP_EXCEPTIONS:
                res.note("exception %s: %s" % (key, TMP_EXCEPTIONS[key]))
                continue
            res.fail(key, facts.where(d["fn"], d["bad"]["node"]),
                     "%s emits %s on a path where `tmp_in_use` is not known to be false: a value parked in cctmp (an intermediate result, or the Y saved around "
                     "an indexed access) is overwritten (`r = a[i] + X; s = Y;` then reloads X's value into Y)" % (d["fn"]["name"], d["what"]))


# ----------------------------------------------------------------------------- C01 (operand cached between the two passes)


@rule("T-SUBOUT-ACC", floor=1,
      text="the subscript of a 16-bit array access is evaluated once; its result is cached in `sub_output` and replayed by the high-byte pass.  "
           "When that result is the accumulator the replay is a bare TAY, so the accumulator must stay reserved: on no path of generate_expr is "
           "`acc_in_use` cleared after `sub_output` has been filled with an operand that may be the accumulator")
def t_subout_acc(facts, res, tier):
    import genmodel
    from walker import Const, EnumV, Sym
    fn = facts.fn("generate_expr", genmodel.GEN_QUAL)
    RS, PS, FS, variants_of = genmodel.variant_flow(facts)
    sites = 0
    bad = None
    for kind, val, st in genmodel.fn_paths(facts, fn):
        if genmodel.is_error_exit(val):
            continue
        filled = None
        for ev in st.events:
            if ev["kind"] == "set" and ev["field"] == "sub_output":
                v = ev["value"]
                inner = v.payload[0] if isinstance(v, EnumV) and v.variant == "Some" and v.payload else v
                vs = variants_of(inner, st, fn["name"]) if inner is not None else None
                if vs is None or "A" in vs:
                    filled = ev
                    sites += 1
            elif ev["kind"] == "set" and ev["field"] == "acc_in_use" and filled is not None:
                if isinstance(ev["value"], Const) and ev["value"].v is False and bad is None:
                    bad = ev
    key = "T-SUBOUT-ACC:generate_expr"
    res.inst(key, True, {"paths_filling_the_cache": sites})
    if sites == 0:
        raise AnchorMissing("no path of generate_expr fills `sub_output`")
    if bad is not None:
        res.fail(key, facts.where(fn, bad["node"]),
                 "generate_expr clears `acc_in_use` after caching the subscript result in `sub_output`: the high-byte pass replays the cached operand "
                 "(a bare TAY when it is the accumulator) after the low-byte load has overwritten A, so `s = arr[i+1]` on a 16-bit array reads the high byte of the wrong element")


# ----------------------------------------------------------------------------- C18 / C04 (inline assembly is code)


def _asmline_predicates(facts):
    """(fn, node, text) for every `matches!` over AsmLine variants and every closure whose body matches on them."""
    out = []
    for fn in facts.fns:
        for n in walk(fn["body"]):
            if n.get("k") == "macro" and n["name"] == "matches":
                t = norm(n)
                if "AsmLine::" in t:
                    # a pattern that binds the instruction and goes on to test it (a guard on its mnemonic) looks for one
                    # particular instruction; it does not sort lines into code and non-code
                    binds = False
                    def rec(p):
                        nonlocal binds
                        if isinstance(p, dict):
                            if p.get("k") == "tstruct" and p.get("segs", [])[-1:] == ["Instruction"] and any(e.get("k") == "ident" for e in p.get("elems", [])):
                                binds = True
                            for v in p.values():
                                rec(v)
                        elif isinstance(p, list):
                            for x in p:
                                rec(x)
                    rec(n.get("pat"))
                    if binds and n.get("guard") is not None:
                        continue
                    out.append((fn, n, t))
            elif n.get("k") == "closure":
                t = norm(n)
                if "AsmLine::Instruction" in t and "matches!" not in t and len(t) < 400:
                    out.append((fn, n, t))
    return out


@rule("T-ASMLINE-PREDICATE", floor=1,
      text="a predicate over the lines of a function's code (`matches!(line, AsmLine::..)`, a closure handed to any/all/filter/position) that "
           "counts instructions as code also counts inline assembly (`AsmLine::Inline`): an `asm(\"..\")` statement is executable code, and a "
           "function body made only of asm statements is not empty.  The rule's matcher is exercised on a fixture on every run")
def t_asmline_predicate(facts, res, tier):
    import os
    from astlib import load_file_facts, VERIF
    fx = load_file_facts(os.path.join(VERIF, "fixtures", "asmline_predicate.rs"))
    fpreds = _asmline_predicates(fx)
    bad = [p for p in fpreds if "AsmLine::Instruction" in p[2] and "AsmLine::Inline" not in p[2]]
    good = [p for p in fpreds if "AsmLine::Instruction" in p[2] and "AsmLine::Inline" in p[2]]
    res.inst("T-ASMLINE-PREDICATE:fixture", True, {"predicates_in_fixture": len(fpreds)})
    if len(bad) != 1 or len(good) != 1 or bad[0][0]["name"] != "fixture_bad_is_empty":
        res.fail("T-ASMLINE-PREDICATE:fixture:INTERNAL", "fixtures/asmline_predicate.rs", "the matcher does not separate the fixture's two predicates (bad=%d good=%d)" % (len(bad), len(good)))
        return
    n = 0
    for fn, node, t in _asmline_predicates(facts):
        n += 1
        key = "T-ASMLINE-PREDICATE:%s" % fn["name"]
        res.inst(key, True, {"predicate": t[:120]})
        if "AsmLine::Instruction" in t and "AsmLine::Inline" not in t:
            res.fail(key, facts.where(fn, node),
                     "%s classifies code lines with `%s`: instructions count, inline assembly does not - a body made only of asm(\"..\") statements is "
                     "taken for empty (and, where this decides what is pasted or kept, the asm statements disappear)" % (fn["name"], t[:100]))
    res.note("%d AsmLine predicates in the crate" % n)


@rule("T-INLINE-PASTE", floor=1,
      text="push_code, once it has found the code of the inline function, always pastes it and defines the end label: no successful early return "
           "precedes append_code / append_label")
def t_inline_paste(facts, res, tier):
    fn = facts.fn("push_code", "GeneratorState")
    app = [n for n in walk(fn["body"]) if n.get("k") == "mcall" and n["method"] == "append_code"]
    lab = [n for n in walk(fn["body"]) if n.get("k") == "mcall" and n["method"] == "append_label"]
    if not app or not lab:
        raise AnchorMissing("push_code: append_code / append_label call not found")
    al = tuple(int(x) for x in app[0]["loc"].split(":"))
    res.inst("T-INLINE-PASTE:push_code", True)
    for n in walk(fn["body"]):
        if n.get("k") == "return":
            l = tuple(int(x) for x in n["loc"].split(":"))
            t = norm(n)
            if l < al and "Err" not in t:
                res.fail("T-INLINE-PASTE:push_code:early-return", facts.where(fn, n),
                         "push_code returns successfully (`%s`) before pasting the inline function's code: the call disappears from the emitted program" % t[:40])


@rule("T-INLINE-COPY-ALL", floor=1,
      text="append_code copies every line of the inlined body: its loop over the source lines has no `continue`, `break` or early `return`, and "
           "is not restricted by a filter - a return jump, an asm statement or a label that is left out changes what the inlined call does")
def t_inline_copy_all(facts, res, tier):
    fn = facts.fn("append_code", "AssemblyCode")
    loops = [n for n in walk(fn["body"]) if n.get("k") == "for"]
    if not loops:
        raise AnchorMissing("append_code: copy loop not found")
    lp = loops[0]
    res.inst("T-INLINE-COPY-ALL:append_code", True, {"iterates": norm(lp["iter"])[:80]})
    for n in walk(lp["body"]):
        if n.get("k") in ("continue", "break", "return"):
            res.fail("T-INLINE-COPY-ALL:append_code:skips", facts.where(fn, n),
                     "the copy loop of append_code leaves an iteration early (`%s`): some line of the inlined body is not copied" % n["k"])
            break
    it = norm(lp["iter"])
    if re.search(r"\.(filter|skip|take|skip_while|take_while|step_by)\(", it):
        res.fail("T-INLINE-COPY-ALL:append_code:filtered", facts.where(fn, lp),
                 "the copy loop of append_code iterates over a filtered view of the body (`%s`)" % it[:80])


# ----------------------------------------------------------------------------- C03 (every function is branch-checked)


@rule("T-LB-WRAPPER", floor=1,
      text="GeneratorState::check_branches hands every function's code to AssemblyCode::check_branches: nothing returns before that call "
           "(a size-based fast path needs the exact displacement arithmetic of the checker and is not accepted)")
def t_lb_wrapper(facts, res, tier):
    fn = facts.fn("check_branches", "GeneratorState")
    calls = [n for n in walk(fn["body"]) if n.get("k") == "mcall" and n["method"] == "check_branches"]
    if not calls:
        raise AnchorMissing("GeneratorState::check_branches does not call AssemblyCode::check_branches")
    cl = tuple(int(x) for x in calls[0]["loc"].split(":"))
    res.inst("T-LB-WRAPPER:check_branches", True)
    for n in walk(fn["body"]):
        if n.get("k") == "return" and tuple(int(x) for x in n["loc"].split(":")) < cl:
            res.fail("T-LB-WRAPPER:check_branches:early-return", facts.where(fn, n),
                     "the branch-check wrapper returns before calling the checker: functions that take this path keep whatever out-of-range branch they have")
    g = enclosing_guards(fn["body"], calls[0]) or []
    if g:
        res.fail("T-LB-WRAPPER:check_branches:conditional", facts.where(fn, calls[0]),
                 "the checker is only called under a condition (%s)" % "; ".join(c for (_, _, c, _) in g)[:120])


# ----------------------------------------------------------------------------- C06 (a statement keeps its own position)


@rule("T-POS-OWN", floor=5,
      text="a StatementLoc built from the `statement` of another StatementLoc keeps that statement's own `pos`: re-wrapping a statement with the "
           "position of an enclosing construct (the `{` of its block) makes every code-generation error in it point at the wrong line")
def t_pos_own(facts, res, tier):
    n_lit = 0
    for fn in facts.fns:
        if not fn["file"].endswith("/compile.rs"):
            continue
        for n in walk(fn["body"]):
            if n.get("k") != "struct" or (n.get("segs") or [""])[-1] != "StatementLoc":
                continue
            flds = {f.get("name"): f.get("e") for f in n.get("fields", [])}
            if "statement" not in flds or "pos" not in flds or not isinstance(flds["statement"], dict):
                continue
            n_lit += 1
            st = norm(flds["statement"])
            m = re.match(r"^(.*)\.statement$", st)
            key = "T-POS-OWN:%s:%d" % (fn["name"], n_lit)
            res.inst(key, True)
            if m:
                base = m.group(1)
                pt = norm(flds["pos"]) if isinstance(flds["pos"], dict) else str(flds["pos"])
                if pt != base + ".pos":
                    res.fail("T-POS-OWN:%s:rewrapped" % fn["name"], facts.where(fn, n),
                             "%s builds a StatementLoc from `%s` but gives it the position `%s` instead of `%s.pos`: errors raised while generating "
                             "that statement are reported at the other position" % (fn["name"], st[:50], pt[:30], base[:30]))
    if n_lit == 0:
        raise AnchorMissing("no StatementLoc literal found in compile.rs")


# ----------------------------------------------------------------------------- C10 (a compile-time verdict must be consumed)


def _parents(root):
    par = {}
    stack = [root]
    while stack:
        n = stack.pop()
        for c in children(n):
            par[id(c)] = n
            stack.append(c)
    return par


@rule("T-COND-VERDICT", floor=5,
      text="generate_condition called with `immediate_special = true` may answer a constant condition at compile time (Some(b)) *instead of* "
           "emitting a branch; every such call therefore binds and inspects the result.  A call whose result is discarded passes false")
def t_cond_verdict(facts, res, tier):
    import genmodel
    n_calls = 0
    for fn in genmodel.gen_fns(facts):
        par = None
        for n in walk(fn["body"]):
            if not (n.get("k") == "mcall" and n["method"] == "generate_condition" and len(n["args"]) >= 5):
                continue
            n_calls += 1
            a = n["args"][4]
            lit_false = a.get("k") == "lit" and a.get("v") is False
            key = "T-COND-VERDICT:%s:%d" % (fn["name"], n_calls)
            res.inst(key, True, {"immediate_special": norm(a)})
            if lit_false:
                continue
            if par is None:
                par = _parents(fn["body"])
            # climb through `?`
            p = par.get(id(n))
            while p is not None and p.get("k") in ("try",):
                n2 = p
                p = par.get(id(p))
            used = p is not None and p.get("k") in ("let", "match", "return", "assign", "if", "letcond", "mcall", "call", "struct", "tuple")
            if p is not None and p.get("k") == "block":
                # last expression of a block = the block's value (returned)
                stmts = p.get("stmts", [])
                used = bool(stmts) and (stmts[-1] is n or (stmts[-1].get("k") == "try" and stmts[-1].get("e") is n)) and not stmts[-1].get("semi")
            if not used:
                res.fail("T-COND-VERDICT:%s:discarded" % fn["name"], facts.where(fn, n),
                         "%s calls generate_condition with immediate_special = %s and throws the result away: for a constant condition no branch is emitted "
                         "and the verdict is lost, so the code falls through as if the condition were false (`(j + 1) + (1 && 1)` adds 0)" % (fn["name"], norm(a)))
    if n_calls == 0:
        raise AnchorMissing("no call of generate_condition found")


# ----------------------------------------------------------------------------- C16 (index computed from a length)


@rule("T-INDEX-GUARD", floor=1,
      text="an index or slice bound of the form `v.len() - k` is only evaluated where `v` is known to hold at least k elements (an enclosing test "
           "of `v.is_empty()` / `v.len()`, or a loop over v's elements): on an empty vector the subtraction underflows and the compiler panics")
def t_index_guard(facts, res, tier):
    n_sites = 0
    for fn in facts.fns:
        for n in walk(fn["body"]):
            if n.get("k") != "index":
                continue
            subs = []
            for x in walk(n["idx"]):
                if x.get("k") == "binary" and x["op"] == "-" and x["l"].get("k") == "mcall" and x["l"]["method"] == "len" and x["r"].get("k") == "lit":
                    subs.append(x)
            if not subs:
                continue
            recv = norm(subs[0]["l"]["recv"])
            n_sites += 1
            key = "T-INDEX-GUARD:%s:%s" % (fn["name"], re.sub(r"[^A-Za-z0-9_.]", "", recv)[:30])
            res.inst(key, True, {"where": facts.where(fn, n)})
            g = enclosing_guards(fn["body"], n) or []
            ok = False
            for (kind, _, c, br) in g:
                if recv in c and (("is_empty()" in c and ((c.startswith("!") or "!" + recv in c) == bool(br))) or re.search(re.escape(recv) + r"\.len\(\)(>|>=|!=)", c) or ("is_empty()" in c and br is False)):
                    ok = True
            if not ok:
                res.fail(key, facts.where(fn, n),
                         "%s indexes with `%s.len() - %s` without an enclosing test that `%s` is not empty: an empty list (a `default:` clause with no "
                         "statement, an empty block) makes the subtraction underflow and the compiler panics" % (fn["name"], recv, subs[0]["r"].get("v"), recv))
    res.note("%d length-relative index sites" % n_sites)
    res.inst("T-INDEX-GUARD:scan", True, {"sites": n_sites})


# ----------------------------------------------------------------------------- C09 (initialiser bytes are stored as decoded)

SHRINKERS = {"resize", "resize_with", "truncate", "drain", "pop", "remove", "swap_remove", "clear", "split_off", "retain", "dedup"}


@rule("T-STR-NO-SHRINK", floor=1,
      text="the vector that receives the decoded bytes of a string-literal initialiser (and its terminating NUL) is stored as the variable's "
           "contents unchanged: between the decoding loop and `VariableDefinition::Array(v)` nothing resizes, truncates or removes from it")
def t_str_no_shrink(facts, res, tier):
    fn = facts.fn("compile_var_decl", "CompilerState")
    n_sites = 0
    for blk in walk(fn["body"]):
        if blk.get("k") != "block":
            continue
        stmts = blk.get("stmts", [])
        for i, s in enumerate(stmts):
            t = norm(s)
            m = re.search(r"VariableDefinition::Array\((\w+)\)", t)
            if not m or s.get("k") not in ("assign", "let"):
                continue
            v = m.group(1)
            # is this the string branch? the same block decodes a quoted string / pushes chars
            before = stmts[:i]
            if not any("compile_quoted_string" in norm(b) or "as i32" in norm(b) and ".push(" in norm(b) for b in before):
                continue
            n_sites += 1
            key = "T-STR-NO-SHRINK:compile_var_decl:%d" % n_sites
            res.inst(key, True)
            for b in before:
                for x in walk(b):
                    if x.get("k") == "mcall" and x["method"] in SHRINKERS and root_name(x["recv"]) == v:
                        res.fail("T-STR-NO-SHRINK:compile_var_decl:%s" % x["method"], facts.where(fn, x),
                                 "the bytes decoded from a string literal are passed through `%s.%s(..)` before being stored: with a declared size smaller than "
                                 "the literal the tail and the terminating NUL are dropped silently" % (v, x["method"]))
    if n_sites == 0:
        raise AnchorMissing("compile_var_decl: the branch storing a decoded string literal was not found")


# ----------------------------------------------------------------------------- C07 / C09 (scanning does not depend on conditional state)


@rule("T-SCAN-STATE", floor=1,
      text="the preprocessor's comment / string scanner (the loop that walks one physical line) is independent of the conditional-compilation "
           "state: string literals are recognised in skipped regions too, otherwise a `/*` inside a skipped string opens a comment that swallows "
           "the following #else / #endif")
def t_scan_state(facts, res, tier):
    fn = facts.fn("process", "")
    loop = None
    for n in walk(fn["body"]):
        if n.get("k") == "while" and "remaining.is_empty()" in norm(n["cond"]):
            loop = n
    if loop is None:
        raise AnchorMissing("process(): the line scanner loop was not found")
    res.inst("T-SCAN-STATE:process", True)
    # nothing before the scanner may skip or alter the line depending on the conditional state either
    rd = None
    for n in walk(fn["body"]):
        if n.get("k") == "while" and "read_line" in norm(n["cond"]):
            rd = n
    if rd is not None:
        for s2 in rd["body"].get("stmts", []):
            if s2 is loop:
                break
            for n in walk(s2):
                if n.get("k") == "if" and re.search(r"\bstate\b", norm(n["cond"])):
                    res.fail("T-SCAN-STATE:process:state-dependent-prefilter", facts.where(fn, n),
                             "before the line scanner runs, the line is skipped or altered depending on the conditional state (`%s`): a `/*` that opens on such a line "
                             "is never seen, and commented-out #else / #endif lines after it take effect" % norm(n["cond"])[:80])
    for n in walk(loop["body"]):
        if n.get("k") == "if":
            c = norm(n["cond"])
            if re.search(r"\bstate\b", c):
                res.fail("T-SCAN-STATE:process:state-dependent", facts.where(fn, n),
                         "the line scanner tests the conditional state (`%s`): in a skipped region string literals are no longer recognised, and a `/*` or `//` "
                         "inside one is taken for a comment" % c[:80])


# ----------------------------------------------------------------------------- C11 (type names and layout)


@rule("T-TYPE-TEXT", floor=1,
      text="source text is compared with a multi-word spelling (`\"short int\"`) only after its white space has been normalised: the text of a "
           "grammar rule keeps whatever blanks, tabs, newlines or comments-turned-blank the author wrote between the words")
def t_type_text(facts, res, tier):
    n_sites = 0
    for fn in facts.fns:
        if "/src/tests/" in fn["file"]:
            continue
        normalised = set()
        for n in walk(fn["body"]):
            if n.get("k") == "let" and n.get("init") is not None and "split_whitespace" in norm(n["init"]):
                normalised |= pat_names(n.get("pat"))
        for n in walk(fn["body"]):
            if n.get("k") == "binary" and n["op"] in ("==", "!="):
                for lit, other in ((n["l"], n["r"]), (n["r"], n["l"])):
                    if lit.get("k") == "lit" and lit.get("ty") == "str" and re.search(r"\S\s+\S", str(lit["v"])):
                        n_sites += 1
                        key = "T-TYPE-TEXT:%s:%s" % (fn["name"], str(lit["v"]).replace(" ", "_"))
                        res.inst(key, True)
                        r = root_name(other)
                        if r not in normalised and "split_whitespace" not in norm(other):
                            res.fail(key, facts.where(fn, n),
                                     "%s compares source text with the spelling %r: with a tab, two blanks, a newline or a comment between the words the text differs and the "
                                     "construct is silently taken for something else (or rejected)" % (fn["name"], lit["v"]))
    res.inst("T-TYPE-TEXT:scan", True, {"sites": n_sites})


# ----------------------------------------------------------------------------- C01 (a value returned in the accumulator is claimed)


@rule("T-ACC-CLAIM", floor=6,
      text="a generator function that hands back `ExprType::A(..)` - a value living in the accumulator - leaves `acc_in_use` true on that path, "
           "so that whatever is evaluated next saves the accumulator before using it.  (All producers do; a sibling that does not lets "
           "`f() + g()` overwrite f's result with g's.)")
def t_acc_claim(facts, res, tier):
    import genmodel
    from walker import EnumV, Const
    per_fn = {}
    for fn in genmodel.gen_fns(facts):
        if fn["name"] == "new":
            continue
        try:
            paths = genmodel.fn_paths(facts, fn)
        except Exception:
            continue
        for kind, val, st in paths:
            if genmodel.is_error_exit(val):
                continue
            v = val
            if isinstance(v, EnumV) and v.enum == "Result" and v.variant == "Ok" and v.payload:
                v = v.payload[0]
            if not (isinstance(v, EnumV) and v.enum == "ExprType" and v.variant == "A"):
                continue
            cur = st.env.get("self.acc_in_use")
            if isinstance(cur, Const):
                know = {cur.v}
            else:
                kk = "self.acc_in_use@%d" % st.notes.get("ep:acc_in_use", 0)
                a, e = st.cons.get(kk, (None, frozenset()))
                know = set(a) if a is not None else ({True, False} - set(e))
            d = per_fn.setdefault(fn["name"], {"fn": fn, "claimed": 0, "unclaimed": 0})
            if know == {True}:
                d["claimed"] += 1
            else:
                d["unclaimed"] += 1
    for name, d in sorted(per_fn.items()):
        key = "T-ACC-CLAIM:%s" % name
        res.inst(key, True, {"paths_returning_A": d["claimed"] + d["unclaimed"], "claimed": d["claimed"]})
        if d["unclaimed"]:
            res.fail(key, facts.where(d["fn"]),
                     "%s returns ExprType::A on %d path(s) without `acc_in_use` being true: the next evaluation does not save the accumulator and overwrites the "
                     "value (`r = f() + g();` emitted JSR f / JSR g / STA cctmp / ADC cctmp, i.e. 2*g())" % (name, d["unclaimed"]))


# ----------------------------------------------------------------------------- C01 (Y as a value while Y serves as an index)

TWO_OPERAND = ("generate_assign", "generate_arithm", "generate_shift", "generate_condition_ex")


@rule("T-SAVED-Y-VALUE", floor=4,
      text="when an indexed operand needs Y as its index, the program's Y is parked in cctmp (`saved_y`) and Y holds the index until the end of "
           "the statement.  The functions that combine two evaluated operands therefore read Y *as a value* (TYA, STY, CPY) only where "
           "`saved_y` is known to be false (they reject otherwise): `arr[i] = Y` must not store the index")
def t_saved_y_value(facts, res, tier):
    import genmodel
    seen = {}
    for name in TWO_OPERAND:
        fn = facts.fn(name, genmodel.GEN_QUAL)
        for kind, val, st in genmodel.fn_paths(facts, fn):
            if genmodel.is_error_exit(val):
                continue
            for ev in st.events:
                if ev["kind"] not in ("asm", "sasm", "sasm_protected"):
                    continue
                m = genmodel.domain_of(st, ev["args"][0], facts, universe=facts.enum_variants("AsmMnemonic"))
                if not (m and m <= {"TYA", "STY", "CPY"}):
                    continue
                key = "T-SAVED-Y-VALUE:%s:%s" % (name, "/".join(sorted(m)))
                d = seen.setdefault(key, {"fn": fn, "ok": 0, "bad": None})
                know = ev.get("know", {}).get("saved_y")
                if know != {False}:
                    kk = "self.saved_y@%d" % ev.get("ver", {}).get("saved_y", 0)
                    a, e = st.cons.get(kk, (None, frozenset()))
                    if a is not None and set(a) == {False}:
                        know = {False}
                if know == {False}:
                    d["ok"] += 1
                elif d["bad"] is None:
                    d["bad"] = ev
    for key, d in sorted(seen.items()):
        res.inst(key, True, {"guarded_paths": d["ok"]})
        if d["bad"] is not None:
            res.fail(key, facts.where(d["fn"], d["bad"]["node"]),
                     "%s reads Y as a value (%s) on a path where `saved_y` is not known to be false: when the other operand is indexed through Y the "
                     "register holds the index, not the program's Y" % (d["fn"]["name"], key.split(":")[-1]))


# ----------------------------------------------------------------------------- C11 / C09 (a block comment ends at its first */)


@rule("T-COMMENT-END", floor=2,
      text="when a block comment opens on a line, the scanner goes on looking for `*/` in the whole rest of that line: the text it continues "
           "with is a slice of the line itself, not the remainder of a view that was cut at the first `//` (a URL inside the comment would "
           "hide the comment's own end and the following lines would be swallowed)")
def t_comment_end(facts, res, tier):
    fn = facts.fn("process", "")
    sites = 0
    for blk in walk(fn["body"]):
        if blk.get("k") != "block":
            continue
        stmts = blk.get("stmts", [])
        opens = [s for s in stmts if s.get("k") == "assign" and norm(s["l"]) == "in_multiline_comments" and norm(s["r"]) == "true"]
        if not opens:
            continue
        rem = [s for s in stmts if s.get("k") == "assign" and norm(s["l"]) == "remaining"]
        if not rem:
            continue
        sites += 1
        key = "T-COMMENT-END:process:%d" % sites
        rhs = rem[0]["r"]
        rt = norm(rhs)
        res.inst(key, True, {"continues_with": rt})
        if re.match(r"^&?remaining\[", rt):
            # .. and behind the two characters of the opener: resumed at the `/*` itself, its `*` and a `/` that follows spell `*/`
            # and the comment `/*/ .. */` closes itself
            if not re.match(r"^&?remaining\[\(?\(?\w+\.len\(\)\)?\+2\)?\.\.\]$", rt):
                res.fail("T-COMMENT-END:process:resumes-at-opener", facts.where(fn, rem[0]),
                         "after `/*` the scanner continues with `%s`, which does not skip the two characters of the opener: in `/*/` the `*` of the opener and the next `/` are taken for the end of the comment" % rt)
            continue
        # a binder: where does it come from?
        src = None
        if rhs.get("k") == "path":
            # find the let that created the iterator whose next() bound this name: look for split("//") feeding it
            for n in walk(fn["body"]):
                if n.get("k") == "let" and n.get("init") is not None and 'split("//")' in norm(n["init"]) and "splitn" in norm(n["init"]):
                    src = norm(n["init"])
        if src:
            res.fail("T-COMMENT-END:process:cut-at-line-comment", facts.where(fn, rem[0]),
                     "after `/*` the scanner continues with `%s`, a piece of `%s`: everything behind the first `//` of the line is gone, so a `*/` that follows a "
                     "`//` inside the comment (`/* see http://x */`) is never seen and the comment swallows the following lines" % (rt, src[:70]))
        else:
            res.fail(key, facts.where(fn, rem[0]), "cannot show that the text scanned after `/*` is the whole rest of the line (`%s`)" % rt)
    if sites == 0:
        raise AnchorMissing("process(): no site opening a block comment found")


@rule("T-COMMENT-SPACE", floor=1,
      text="a block comment separates the tokens around it like a blank: where a comment ends and more text of the same line follows, the "
           "scanner puts white space into the accumulated line (otherwise `char/**/x` becomes `charx` and `y &/**/& z` becomes `y && z`)")
def t_comment_space(facts, res, tier):
    fn = facts.fn("process", "")
    site = None
    for blk in walk(fn["body"]):
        if blk.get("k") != "block":
            continue
        stmts = blk.get("stmts", [])
        if any(s.get("k") == "assign" and norm(s["l"]) == "in_multiline_comments" and norm(s["r"]) == "false" for s in stmts):
            site = blk
    if site is None:
        raise AnchorMissing("process(): the site closing a block comment was not found")
    res.inst("T-COMMENT-SPACE:process", True)
    # the branch taken when text follows the comment on the same line: it sets insert_it = true
    ok = False
    for n in walk(site):
        if n.get("k") == "block" and any(s.get("k") == "assign" and norm(s["l"]) == "insert_it" and norm(s["r"]) == "true" for s in n.get("stmts", [])):
            for x in walk(n):
                if x.get("k") == "mcall" and x["method"] in ("push", "push_str") and root_name(x["recv"]) == "uncommented_buf" and x["args"] and x["args"][0].get("k") == "lit" and str(x["args"][0].get("v")).strip() == "":
                    ok = True
                    # the blank goes in whatever characters surround the comment: the only condition allowed is that something precedes it
                    for y in walk(n):
                        if y.get("k") == "if" and any(z is x for z in walk(y["then"])):
                            ct = norm(y["cond"]).strip("()")
                            res.inst("T-COMMENT-SPACE:process:condition", True, {"blank_inserted_if": ct[:80]})
                            if ct not in ("!uncommented_buf.is_empty()", "!uncommented_buf.is_empty", "uncommented_buf.len()>0", "uncommented_buf.len()!=0"):
                                res.fail("T-COMMENT-SPACE:process:condition", facts.where(fn, y),
                                         "the blank that replaces a block comment is only inserted when `%s`: a comment between two operator characters or before `*` / `{` then "
                                         "glues them together (`j &/*c*/& k` becomes `j && k`, `-/*c*/-j` becomes `--j`)" % ct[:80])
    if not ok:
        res.fail("T-COMMENT-SPACE:process:no-separator", facts.where(fn, site),
                 "when a block comment ends and text follows on the same line, nothing is put between what preceded the comment and what follows it: "
                 "`char/**/x` is handed to the parser as `charx`")


# ----------------------------------------------------------------------------- round 5


@rule("T-LINE-RAW", floor=2,
      text="between reading a physical line (and joining its splices) and the scanner that hides string literals, the line buffer is not "
           "rewritten: only the splice handling (pop / push_str / clear / read_line into it) touches it.  Any normalisation of the raw "
           "line (tabs to blanks, case, trimming) also rewrites the inside of string literals that have not been hidden yet")
def t_line_raw(facts, res, tier):
    fn = facts.fn("process", "")
    rd = None
    for n in walk(fn["body"]):
        if n.get("k") == "while" and "read_line" in norm(n["cond"]):
            rd = n
    if rd is None:
        raise AnchorMissing("process(): the line reading loop was not found")
    buf = None
    m = re.search(r"read_line\((?:&mut)?(\w+)\)", norm(rd["cond"]))
    if m:
        buf = m.group(1)
    if not buf:
        raise AnchorMissing("process(): cannot identify the line buffer")
    res.inst("T-LINE-RAW:process:%s" % buf, True)
    stmts = rd["body"].get("stmts", [])
    for s in stmts:
        if s.get("k") == "while" and "remaining" in norm(s["cond"]):
            break   # the scanner starts here
        for n in walk(s):
            if n.get("k") == "assign" and root_name(n["l"]) == buf and norm(n["l"]) == buf:
                res.fail("T-LINE-RAW:process:rewritten", facts.where(fn, n),
                         "the raw line is replaced (`%s = %s`) before string literals are hidden: whatever this rewrites is also rewritten inside string literals "
                         "on that line (a TAB inside the string of a #define body became a blank)" % (buf, norm(n["r"])[:50]))
            if n.get("k") == "mcall" and root_name(n["recv"]) == buf and norm(n["recv"]) == buf and n["method"] in ("push_str", "push", "extend", "insert_str"):
                # what the splice handling appends is a physical line as read_line delivered it
                a = n["args"][-1] if n.get("args") else {}
                src = a
                while isinstance(src, dict) and (src.get("k") in ("ref", "paren") or (src.get("k") == "unary" and src.get("op") in ("&", "*"))
                                                 or (src.get("k") == "mcall" and src["method"] in ("as_str", "clone", "as_ref", "to_string", "to_owned") and not src.get("args"))):
                    src = src["recv"] if src.get("k") == "mcall" else src["e"]
                nm = src["segs"][0] if isinstance(src, dict) and src.get("k") == "path" and len(src["segs"]) == 1 else None
                read_into = nm is not None and any(x.get("k") == "mcall" and x["method"] == "read_line" and x.get("args") and root_name(x["args"][0]) == nm for x in walk(s))
                emptied = nm is not None and any(x.get("k") == "let" and x["pat"].get("name") == nm and norm(x.get("init") or {}) in ("String::new()", "String::default()") for x in walk(s))
                res.inst("T-LINE-RAW:process:spliced:%s" % (nm or "?"), True, {"appended": norm(a)[:60]})
                if not (read_into and emptied):
                    res.fail("T-LINE-RAW:process:spliced", facts.where(fn, n),
                             "the splice handling appends `%s` to the line, which is not a whole physical line as read (a fresh String filled by read_line): a string "
                             "literal or a macro body continued on the next line loses or gains characters at the join" % norm(a)[:60])
            if n.get("k") == "mcall" and root_name(n["recv"]) == buf and norm(n["recv"]) == buf and n["method"] in (
                    "replace_range", "make_ascii_lowercase", "make_ascii_uppercase", "retain", "truncate", "insert", "insert_str", "remove", "drain"):
                res.fail("T-LINE-RAW:process:mutated", facts.where(fn, n), "the raw line is modified in place (`%s.%s`) before string literals are hidden" % (buf, n["method"]))


@rule("T-LOOP-INNERMOST", floor=3,
      text="the loop stack (`loops`) is consulted from its innermost entry: `last()`, `last_mut()`, `pop()` or a reversed search.  A forward "
           "search (`iter().find/position/any` without `rev()`) returns the outermost enclosing loop, so a `continue` or `break` inside "
           "nested loops would leave the wrong one")
def t_loop_innermost(facts, res, tier):
    import genmodel
    n_sites = 0
    for fn in genmodel.gen_fns(facts):
        for n in walk(fn["body"]):
            if n.get("k") != "mcall":
                continue
            t = norm(n)
            if not re.match(r"^self\.loops\.", t):
                continue
            if n["method"] in ("last", "last_mut", "pop", "push", "is_empty", "len"):
                n_sites += 1
                res.inst("T-LOOP-INNERMOST:%s:%d" % (fn["name"], n_sites), True, {"access": n["method"]})
                continue
            if n["method"] in ("find", "position", "find_map", "any", "next", "nth", "first", "get"):
                n_sites += 1
                res.inst("T-LOOP-INNERMOST:%s:%d" % (fn["name"], n_sites), True, {"access": t[:60]})
                if ".rev()" not in t and "rposition" not in t and "rfind" not in t:
                    res.fail("T-LOOP-INNERMOST:%s:outermost-first" % fn["name"], facts.where(fn, n),
                             "%s searches the loop stack from its outermost entry (`%s`): inside nested loops the entry found is the outer loop's, "
                             "so the jump emitted for `continue` / `break` leaves the wrong loop" % (fn["name"], t[:70]))
    if n_sites == 0:
        raise AnchorMissing("no access to the loop stack found")


@rule("T-SHIFT-SIGNED", configs=("default", "atari2600"), floor=2,
      text="in generate_shift_16bits and generate_shift every emission of a right-shift instruction (LSR / ROR, literally or through a variable "
           "holding the shift mnemonic) lies under a condition on the signedness of the operand (`signed`, `v.signed`): either branch - the "
           "point is that the sign was looked at.  An arithmetic right shift of a negative value must keep the sign")
def t_shift_signed(facts, res, tier):
    import genmodel
    for name in ("generate_shift_16bits", "generate_shift"):
        fn = facts.fn(name, genmodel.GEN_QUAL)
        # variables that may hold a right-shift mnemonic
        shiftvars = set()
        for n in walk(fn["body"]):
            if n.get("k") in ("let", "assign"):
                rhs = n.get("init") if n.get("k") == "let" else n.get("r")
                if rhs is not None and re.search(r"\b(LSR|ROR)\b", norm(rhs)):
                    shiftvars |= pat_names(n.get("pat")) if n.get("k") == "let" else {root_name(n["l"])}
        for _ in range(2):
            for n in walk(fn["body"]):
                if n.get("k") == "for" and any(re.search(r"\b%s\b" % re.escape(v), norm(n["iter"])) for v in shiftvars if v):
                    shiftvars |= pat_names(n.get("pat"))
                if n.get("k") == "let" and n.get("init") is not None and any(re.search(r"\b%s\b" % re.escape(v), norm(n["init"])) for v in shiftvars if v):
                    shiftvars |= pat_names(n.get("pat"))
        sites = 0
        bad = None
        for n in walk(fn["body"]):
            if n.get("k") == "mcall" and n["method"] in ("sasm", "asm", "sasm_protected") and n["args"]:
                a0 = norm(n["args"][0])
                if re.match(r"^(AsmMnemonic::)?(LSR|ROR)$", a0) or a0 in shiftvars:
                    sites += 1
                    g = enclosing_guards(fn["body"], n) or []
                    if not any("signed" in c for (_, _, c, _) in g):
                        if bad is None:
                            bad = n
        key = "T-SHIFT-SIGNED:%s" % name
        res.inst(key, True, {"right_shift_emission_sites": sites})
        if sites == 0:
            res.fail(key + ":ANCHOR-MISSING", facts.where(fn), "no right-shift emission found in %s" % name)
        elif bad is not None:
            res.fail(key, facts.where(fn, bad),
                     "%s emits a right-shift instruction (`%s`) that is not under any test of the operand's signedness: a negative signed value is shifted "
                     "logically (`sv = -4; sv >>= 1;` gives 32766)" % (name, norm(bad)[:50]))


# ----------------------------------------------------------------------------- C06 (positions initialised with 0)


@rule("T-POS-INIT", floor=2,
      text="a position variable that starts as the literal 0 (`let mut start = 0`) and is filled in while the children of a grammar rule are "
           "walked is never used as an error position before it has been filled: for every child rule whose arm reports an error at `start`, "
           "every sequence of children the grammar allows before it contains a child whose arm assigns `start` unconditionally from a span.  "
           "(Offset 0 is line 1 of the first file: the error would be reported there.)")
def t_pos_init(facts, res, tier):
    import rules_treewalk
    rules = facts.grammar_rules()
    nfas = rules_treewalk.build_nfas(rules)
    n_sites = 0
    for fn in facts.fns:
        if not fn["file"].endswith("/compile.rs"):
            continue
        for blk in walk(fn["body"]):
            if blk.get("k") != "block":
                continue
            stmts = blk.get("stmts", [])
            for i, s in enumerate(stmts):
                if not (s.get("k") == "let" and s.get("init") is not None and s["init"].get("k") == "lit" and s["init"].get("v") == 0 and s["init"].get("ty") == "int"):
                    continue
                names = pat_names(s.get("pat"))
                if len(names) != 1:
                    continue
                var = next(iter(names))
                # the loop over children that follows in the same block
                def walks_children(t):
                    if t.get("k") != "for":
                        return False
                    it = norm(t["iter"])
                    if "into_inner()" in it:
                        return True
                    # `let param = p.into_inner(); .. for pair in param`
                    init = None
                    for b2 in walk(fn["body"]):
                        if b2.get("k") == "let" and it in pat_names(b2.get("pat")) and b2.get("init") is not None:
                            init = b2["init"]
                    return init is not None and "into_inner()" in norm(init)
                loop = next((t for t in stmts[i + 1:] if walks_children(t)), None)
                if loop is None:
                    continue
                m = next((x for x in walk(loop["body"]) if x.get("k") == "match" and "as_rule()" in norm(x["e"])), None)
                if m is None:
                    continue
                arms = {}
                for a in m["arms"]:
                    for r in re.findall(r"Rule::(\w+)", pat_text(a["pat"])):
                        arms[r] = a
                if not arms:
                    continue
                # is the variable used as a position at all?
                def uses(node):
                    return [c for c in walk(node) if c.get("k") in ("mcall", "call") and any(x.get("k") == "path" and x["segs"] == [var] for x in c["args"])]
                if not any(uses(a["body"]) for a in arms.values()):
                    continue
                # parent grammar rule: the one whose children are exactly what the arms name
                alphabet = set(arms)
                cands = []
                for rn, nfa in nfas.items():
                    if rn == "__top__":
                        continue
                    syms = nfa.reachable_symbols({nfa.start})
                    if alphabet <= syms:
                        cands.append((len(syms - alphabet), rn))
                if not cands:
                    res.fail("T-POS-INIT:%s:%s:ANCHOR-MISSING" % (fn["name"], var), facts.where(fn, s), "no grammar rule has the children %s" % sorted(alphabet))
                    continue
                cands.sort()
                parent = cands[0][1]
                nfa = nfas[parent]
                assigning = set()
                for r, a in arms.items():
                    body = a["body"]
                    top = body.get("stmts", []) if body.get("k") == "block" else [body]
                    for t in top:
                        if t.get("k") == "assign" and root_name(t["l"]) == var and "as_span()" in norm(t["r"]):
                            assigning.add(r)
                            break
                        if uses(t):
                            break   # used before being assigned in this arm
                n_sites += 1
                for r, a in sorted(arms.items()):
                    if not uses(a["body"]):
                        continue
                    body = a["body"]
                    top = body.get("stmts", []) if body.get("k") == "block" else [body]
                    own_first = False
                    for t in top:
                        if t.get("k") == "assign" and root_name(t["l"]) == var and "as_span()" in norm(t["r"]):
                            own_first = True
                            break
                        if uses(t):
                            break
                    key = "T-POS-INIT:%s:%s:%s" % (fn["name"], parent, r)
                    res.inst(key, True, {"variable": var, "assigned_by_children": sorted(assigning)})
                    if own_first:
                        continue
                    # can child r be reached without passing a child that assigns?
                    seen = set()
                    front = set(nfa.closure({nfa.start}))
                    reach = False
                    stack = list(front)
                    while stack and not reach:
                        stt = stack.pop()
                        if stt in seen:
                            continue
                        seen.add(stt)
                        for sym, t in nfa.trans[stt]:
                            if sym is None:
                                stack.append(t)
                            elif sym == r:
                                reach = True
                            elif sym not in assigning:
                                stack.append(t)
                    if reach:
                        u = uses(a["body"])[0]
                        res.fail(key, facts.where(fn, u),
                                 "%s reports an error at `%s` in its arm for `%s`, but the grammar rule `%s` lets `%s` come before any child whose arm fills `%s` (%s): "
                                 "the position is still 0 and the error is reported on line 1 of the first file" % (
                                     fn["name"], var, r, parent, r, var, ", ".join(sorted(assigning)) or "none does"))
    if n_sites == 0:
        raise AnchorMissing("no zero-initialised position variable filled in a loop over children was found")
