"""Rules over asm(): sizes (C04), legal modes (C13), split-port offsets (C17),
hand-built instructions, AsmLine sibling agreement, optimizer never edits sizes."""
import json
import re
import os

from astlib import AnchorMissing, expr_text, pat_text, walk, VERIF
from core import rule
from genmodel import (ISA, MN, BRANCHES, asm_table, expected_mode, gen_fns, fn_paths, domain_of, is_error_exit,
                      classify_operand, GEN_QUAL, variant_flow)
from walker import Const, EnumV, Sym, Fmt, Tup, Unknown, StructV, BinOp

with open(os.path.join(VERIF, "ref", "cart_ports.json")) as _fh:
    PORTS = json.load(_fh)

MEM_VARIANTS = ("Absolute", "AbsoluteX", "AbsoluteY")
_cache = {}


def protecting_wrappers(facts):
    """Functions of the generator whose body is `self.protected = true; <one emission through asm/sasm>; self.protected = false; ..`"""
    out = {}
    for f in facts.fns:
        if GEN_QUAL not in f["qual"]:
            continue
        t = [expr_text(s0).replace(" ", "") for s0 in (f["body"].get("stmts") or [])]
        if len(t) >= 3 and t[0] == "self.protected=true" and any(x == "self.protected=false" for x in t[1:]):
            i_false = t.index("self.protected=false")
            emits = [x for x in t[1:i_false] if "self.asm(" in x or "self.sasm(" in x]
            if len(emits) == 1 and not any(("self.asm(" in x or "self.sasm(" in x) for x in t[i_false:]):
                out[f["name"]] = t
    return out


def asm_sites(facts):
    """All emission sites of the generator: list of dicts
    {fn, kind, mn: set|None, op: set|None, opval, node, state, protected}"""
    key = ("sites", id(facts))
    if key in _cache:
        return _cache[key]
    sites = []
    all_mn = set(facts.enum_variants("AsmMnemonic"))
    RS, PS, FS, variants_of = variant_flow(facts)
    wrappers = {k for k in protecting_wrappers(facts) if k != "sasm_protected"}
    for fn in gen_fns(facts):
        if fn["name"] in ("asm", "sasm", "sasm_protected", "new") or fn["name"] in wrappers:
            continue
        for kind, value, st in fn_paths(facts, fn):
            for ev in st.events:
                if ev["kind"] == "call" and ev.get("callee") in wrappers and ev.get("args"):
                    # a verified `protected = true; asm(mnemonic, operand, pos, false); protected = false` wrapper: the emission happens
                    # here, protected, with this call's mnemonic and operand
                    a = ev["args"]
                    mn = domain_of(st, a[0], facts, universe=all_mn)
                    opv = a[1] if len(a) > 1 else None
                    sites.append({"fn": fn, "kind": "asm", "mn": mn, "op": variants_of(opv, st, fn["name"]) if opv is not None else None, "opval": opv,
                                  "hb": {False}, "node": ev["node"], "state": st, "protected": Const(True), "exit": kind, "exit_value": value})
                    continue
                if ev["kind"] not in ("asm", "sasm", "sasm_protected"):
                    continue
                args = ev["args"]
                mnv = args[0] if args else None
                mn = domain_of(st, mnv, facts, universe=all_mn) if mnv is not None else None
                if ev["kind"] == "asm":
                    opv = args[1] if len(args) > 1 else None
                    op = variants_of(opv, st, fn["name"]) if opv is not None else None
                    hb = domain_of(st, args[3], facts, universe=[True, False]) if len(args) > 3 else None
                else:
                    opv = EnumV("ExprType", "Nothing")
                    op = {"Nothing"}
                    hb = {False}
                sites.append({"fn": fn, "kind": ev["kind"], "mn": mn, "op": op, "opval": opv, "hb": hb,
                              "node": ev["node"], "state": st, "protected": ev["protected"], "exit": kind,
                              "exit_value": value})
    _cache[key] = sites
    return sites


def requested_pairs(facts):
    """(mnemonic, operand variant) -> list of site descriptors that can request it."""
    key = ("pairs", id(facts))
    if key in _cache:
        return _cache[key]
    pairs = {}
    unknown = []
    for s in asm_sites(facts):
        if s["mn"] is None or s["op"] is None:
            unknown.append(s)
            continue
        for m in s["mn"]:
            for o in s["op"]:
                pairs.setdefault((m, o), []).append(s)
    _cache[key] = (pairs, unknown)
    return pairs, unknown


def payload_consts(site):
    """Constant payload fields of a literal operand: {index: value}."""
    v = site["opval"]
    out = {}
    if isinstance(v, EnumV):
        for i, p in enumerate(v.payload):
            if isinstance(p, Const):
                out[i] = p.v
    return out


def row_admits(row, params, consts):
    """Does the asm() row accept an operand whose payload constants are `consts`?"""
    for i, val in consts.items():
        k = "%s.%d" % (params["op"], i)
        if k in row["cons"]:
            allowed, excl = row["cons"][k]
            if allowed is not None and val not in allowed:
                return False
            if val in excl:
                return False
    return True


def mem_classes(row):
    """zero-page-ness classes a row covers: subset of {True, False}."""
    if row.get("zp_pred") is not None:
        # asm() decided through its zero-page predicate (memory class and, for constant addresses, the offset)
        return {bool(row["zp_pred"])}
    mem = row["memory"]
    if mem is None:
        return {True, False}
    out = set()
    if "Zeropage" in mem:
        out.add(True)
    if mem - {"Zeropage"}:
        out.add(False)
    return out


def site_desc(facts, s):
    return "%s in %s" % (facts.where(s["fn"], s["node"]), s["fn"]["name"])


@rule("T-ASM-SIZE", configs=("default", "atari2600", "atari7800"), floor=60,
      text="for every (mnemonic, operand kind) an emission site can request and every memory class, nb_bytes chosen by asm() equals the encoded length of the addressing mode a 6502 assembler selects (ref/6502.json)")
def t_asm_size(facts, res, tier):
    rows, params, fn = asm_table(facts)
    pairs, unknown = requested_pairs(facts)
    for s in unknown:
        res.fail("T-ASM-SIZE:UNCLASSIFIED-SITE:%s" % s["fn"]["name"], site_desc(facts, s),
                 "cannot bound the mnemonic/operand kind requested at this asm() call")
    seen = set()
    for (mn, var), sites in sorted(pairs.items()):
        consts_list = [payload_consts(s) for s in sites]
        for row in rows:
            if row["kind"] != "ok":
                continue
            if row["operand"] is not None and var not in row["operand"]:
                continue
            if row["mnemonics"] is not None and mn not in row["mnemonics"]:
                continue
            if not any(row_admits(row, params, c) for c in consts_list):
                continue
            nb = row.get("nb_bytes")
            shape = row.get("shape")
            for zp in sorted(mem_classes(row)):
                if shape in ("imm", "none", "indy") or var in ("Label", "Tmp", "Immediate", "Nothing"):
                    zpk = "-"
                else:
                    zpk = "zp" if zp else "abs"
                zpx = zp if not (isinstance(shape, str) and shape.startswith("sym:cctmp")) else True
                mode = expected_mode(mn, shape, zpx, var)
                key = "T-ASM-SIZE:%s:%s:%s:%s" % (mn, var, shape, zpk)
                if mode is None:
                    continue  # no such addressing mode: decided by T-ASM-MODE (C13)
                want = ISA["mode_bytes"][mode]
                if key in seen:
                    # still compare (several rows map to one key)
                    pass
                if not (isinstance(nb, Const) and nb.v == want):
                    if key + ":bad" not in seen:
                        seen.add(key + ":bad")
                        res.fail(key, facts.where(fn), "asm() reports %s bytes for `%s` with %s operand (%s, %s); a 6502 assembler encodes %s mode in %d bytes" % (
                            getattr(nb, "v", nb), mn, var, shape, zpk, mode, want),
                            {"row_constraints": row["cons"], "requested_at": [site_desc(facts, s) for s in sites[:5]]})
                if key not in seen:
                    seen.add(key)
                    res.inst(key, True, {"mnemonic": mn, "operand": var, "shape": shape, "memory": zpk, "mode": mode, "bytes": want})
    res.exhaustive = True
    res.note("asm() decision tree: %d paths (%d emitting); %d requested (mnemonic, operand kind) pairs from %d emission sites" % (
        len(rows), sum(1 for r in rows if r["kind"] == "ok"), len(pairs), len(asm_sites(facts))))


@rule("T-ASM-MODE", configs=("default", "atari2600", "atari7800"), floor=60,
      text="every (mnemonic, operand kind) pair an emission site can request is either rejected by asm() with an error or emitted in an addressing mode the 6502 has for that mnemonic")
def t_asm_mode(facts, res, tier):
    rows, params, fn = asm_table(facts)
    pairs, unknown = requested_pairs(facts)
    for s in unknown:
        res.fail("T-ASM-MODE:UNCLASSIFIED-SITE:%s" % s["fn"]["name"], site_desc(facts, s),
                 "cannot bound the mnemonic/operand kind requested at this asm() call")
    seen = set()
    undecided = []
    for (mn, var), sites in sorted(pairs.items()):
        consts_list = [payload_consts(s) for s in sites]
        covered = False
        for row in rows:
            if row["operand"] is not None and var not in row["operand"]:
                continue
            if row["mnemonics"] is not None and mn not in row["mnemonics"]:
                continue
            if not any(row_admits(row, params, c) for c in consts_list):
                continue
            covered = True
            if row["kind"] == "panic":
                key = "T-ASM-MODE:%s:%s:PANIC" % (mn, var)
                if key not in seen:
                    seen.add(key)
                    res.inst(key)
                    res.fail(key, facts.where(fn), "asm() panics (unreachable!) for operand kind %s, which %s can pass" % (var, ", ".join(sorted({s["fn"]["name"] for s in sites}))),
                             {"requested_at": [site_desc(facts, s) for s in sites[:8]]})
                continue
            if row["kind"] != "ok":
                continue
            shape = row.get("shape")
            for zp in sorted(mem_classes(row)):
                zpx = zp if not (isinstance(shape, str) and shape.startswith("sym:cctmp")) else True
                mode = expected_mode(mn, shape, zpx, var)
                if shape in ("imm", "none", "indy") or var in ("Label", "Tmp", "Immediate", "Nothing"):
                    zpk = "-"
                else:
                    zpk = "zp" if zp else "abs"
                key = "T-ASM-MODE:%s:%s:%s:%s" % (mn, var, shape, zpk)
                if key in seen:
                    continue
                seen.add(key)
                res.inst(key, True, {"mnemonic": mn, "operand": var, "shape": shape, "memory": zpk, "mode": mode})
                if mode is None and shape == "imm" and var in MEM_VARIANTS and (MN[mn]["writes_mem"] or MN[mn]["kind"] in ("store", "rmw", "shift")):
                    # value-immediate row (`#0` high byte of an 8-bit object, `#<`/`#>` address) reached with a
                    # writing mnemonic: possible only if a caller asks for the high byte / address of an lvalue,
                    # which depends on how eight_bits and high_byte are correlated across the two-pass evaluation.
                    res.fail(key, facts.where(fn), "`%s` can be requested with a %s operand that asm() renders as an immediate (`#0` high byte of an 8-bit object, `#<`/`#>` address of an array): "
                             "asm() emits it, but %s cannot take an immediate operand; asm() must reject writing mnemonics on these rows" % (mn, var, mn),
                             {"requested_at": sorted({site_desc(facts, s) for s in sites})[:8], "row_constraints": row["cons"]})
                    continue
                if mode is None:
                    res.fail(key, facts.where(fn), "`%s` can be requested with a %s operand (text shape %s, %s) and asm() emits it, but the 6502 has no such addressing mode for %s" % (
                        mn, var, shape, zpk, mn),
                        {"requested_at": sorted({site_desc(facts, s) for s in sites})[:8], "row_constraints": row["cons"]})
        if not covered:
            key = "T-ASM-MODE:%s:%s:NO-ROW" % (mn, var)
            res.inst(key)
            res.fail(key, facts.where(fn), "no path of asm() handles %s with operand kind %s" % (mn, var))
    res.exhaustive = True
    res.note("T-ASM-MODE: writing mnemonics on value-immediate rows (`#0`, `#<`, `#>`) are violations; asm() rejects them since fix 'Can't write into a constant or an address'")


def displacement(v):
    """Constant displacement added to the element offset."""
    if v is None:
        return None
    if isinstance(v, Const):
        return v.v
    if isinstance(v, Sym):
        return 0
    if isinstance(v, BinOp) and v.op == "+":
        a, b = v.a, v.b
        if isinstance(b, Const) and isinstance(a, Sym):
            return b.v
        if isinstance(a, Const) and isinstance(b, Sym):
            return a.v
    return None


def mentions(v, target):
    if v is target:
        return True
    if isinstance(v, Const) and isinstance(target, Const) and v.v == target.v:
        return True
    if isinstance(target, BinOp) and isinstance(v, BinOp) and repr(v) == repr(target):
        return True
    if isinstance(v, BinOp):
        return mentions(v.a, target) or mentions(v.b, target)
    if isinstance(v, Fmt):
        return any(mentions(a, target) for a in v.args)
    if isinstance(v, Tup):
        return any(mentions(a, target) for a in v.elems)
    return False


@rule("T-ASM-PORT", configs=("default", "atari2600", "atari7800"), floor=30,
      text="in each of asm()'s Absolute/AbsoluteX/AbsoluteY arms, for Superchip and for MemoryOnChip under 3E / 3EP / other schemes, store mnemonics get the write-port displacement and all others the read-port displacement (ref/cart_ports.json), ordinary memory gets none, and the displacement reaches the operand text")
def t_asm_port(facts, res, tier):
    rows, params, fn = asm_table(facts)
    stores = set(PORTS["store_mnemonics"])
    seen = set()
    for row in rows:
        if row["kind"] != "ok" or not row["operand"] or len(row["operand"]) != 1:
            continue
        var = next(iter(row["operand"]))
        if var not in MEM_VARIANTS:
            continue
        shape = row.get("shape")
        if shape in ("imm", "none"):
            # address-of / high byte constants: '#<(v+off)' uses the offset too; '#0' does not touch memory
            if not (isinstance(row.get("operand_val"), Fmt)):
                continue
        mem = row["memory"] or set(facts.enum_variants("VariableMemory"))
        mns = row["mnemonics"] or set(facts.enum_variants("AsmMnemonic"))
        allowed, excl = row["scheme"]
        off = row["state"].env.get("offset")
        disp = displacement(off)
        for memclass in sorted({"Superchip" if "Superchip" in mem else None, "MemoryOnChip" if "MemoryOnChip" in mem else None,
                                "ordinary" if (mem - {"Superchip", "MemoryOnChip"}) else None} - {None}):
            if memclass == "MemoryOnChip":
                if allowed is not None:
                    schemes = ["3E" if "3E" in allowed else None, "3EP" if "3EP" in allowed else None]
                    schemes = [s for s in schemes if s] or ["other"]
                else:
                    schemes = [s for s in ("3E", "3EP") if s not in excl] + ["other"]
            else:
                schemes = ["-"]
            for scheme in schemes:
                for cls in ("store", "other"):
                    cls_mns = (mns & stores) if cls == "store" else (mns - stores)
                    if not cls_mns:
                        continue
                    if memclass == "Superchip":
                        want = PORTS["ports"]["Superchip"]["write" if cls == "store" else "read"]
                    elif memclass == "MemoryOnChip" and scheme in ("3E", "3EP"):
                        want = PORTS["ports"][scheme]["write" if cls == "store" else "read"]
                    else:
                        want = 0
                    key = "T-ASM-PORT:%s:%s:%s:%s" % (var, memclass, scheme, cls)
                    if key not in seen:
                        seen.add(key)
                        res.inst(key, memclass != "ordinary", {"arm": var, "memory": memclass, "scheme": scheme, "class": cls, "displacement": want})
                    # a row that mixes classes (domain not split) cannot give different displacements
                    if disp is None:
                        if key + ":u" not in seen:
                            seen.add(key + ":u")
                            res.fail(key, facts.where(fn), "cannot read the port displacement on this path (offset value %r)" % (off,), {"row": row["cons"]})
                        continue
                    if disp != want:
                        if key + ":bad" not in seen:
                            seen.add(key + ":bad")
                            res.fail(key, facts.where(fn), "asm() %s arm: %s instructions on %s memory (scheme %s) get displacement %s, reference says %s" % (
                                var, cls, memclass, scheme, hex(disp), hex(want)), {"row": row["cons"], "mnemonics": sorted(cls_mns)})
        # the displacement must reach the operand text
        if disp and isinstance(row.get("operand_val"), (Fmt, Sym, Const)):
            ov = row["operand_val"]
            zero_atoms = [a for a, t in row["atoms"].items() if ("offset" in a or "off" in a) and ((">0" in a or "!=0" in a) and t is False)]
            if not mentions(ov, off) and not zero_atoms and shape not in ("imm",) :
                key = "T-ASM-PORT:%s:OPERAND-DROPS-OFFSET:%s" % (var, shape)
                if key not in seen:
                    seen.add(key)
                    res.fail(key, facts.where(fn), "port displacement %s is computed but the operand text %r does not include it" % (hex(disp), ov), {"row": row["cons"]})
    res.exhaustive = True


def struct_literals(node, name):
    for n in walk(node):
        if n.get("k") == "struct" and n["segs"][-1] == name:
            yield n


@rule("T-HANDBUILT", floor=10,
      text="every AsmInstruction literal built outside asm() declares the encoded length of its mnemonic/operand (branch 2, JMP/JSR 3, zero-page cctmp 2), or copies nb_bytes from the instruction it clones")
def t_handbuilt(facts, res, tier):
    n = 0
    constructors = {}   # fn name -> {field: param index}

    def check(fn, lit, fields):
        mn_e = fields.get("mnemonic")
        nb_e = fields.get("nb_bytes")
        op_e = fields.get("dasm_operand")
        if mn_e is None or nb_e is None:
            res.fail("T-HANDBUILT:%s:INCOMPLETE" % fn["name"], facts.where(fn, lit), "AsmInstruction literal without mnemonic/nb_bytes")
            return
        mtxt = expr_text(mn_e)
        mn = mtxt.split("::")[-1]
        if mn not in MN:
            # copy of another instruction: nb_bytes must be copied from the same source
            src = mtxt.rsplit(".", 1)[0] if "." in mtxt else None
            key = "T-HANDBUILT:%s:copy" % fn["name"]
            res.inst(key, True, {"mnemonic": mtxt, "nb_bytes": expr_text(nb_e)})
            if src is None or expr_text(nb_e) != src + ".nb_bytes":
                res.fail(key, facts.where(fn, lit), "instruction built from `%s` does not copy its nb_bytes (`%s`)" % (mtxt, expr_text(nb_e)))
            return
        optxt = expr_text(op_e) if op_e is not None else ""
        if MN[mn]["kind"] == "branch":
            want = 2
            shape = "label"
        elif mn in ("JMP", "JSR"):
            want = 3
            shape = "label"
        elif op_e is not None and op_e.get("k") in ("mcall", "lit") and '"cctmp"' in optxt:
            mode = expected_mode(mn, "sym:cctmp", True)
            want = ISA["mode_bytes"][mode] if mode else None
            shape = "cctmp"
        elif op_e is not None and (optxt in ('""', '"".into()', "String::new()")):
            mode = expected_mode(mn, "none", False)
            want = ISA["mode_bytes"][mode] if mode else None
            shape = "none"
        else:
            want = None
            shape = "?"
        key = "T-HANDBUILT:%s:%s:%s" % (fn["name"], mn, shape)
        res.inst(key, True, {"mnemonic": mn, "operand": optxt, "nb_bytes": expr_text(nb_e), "expected": want})
        if want is None:
            res.fail(key, facts.where(fn, lit), "cannot classify the operand `%s` of hand-built %s to check its length" % (optxt, mn))
        elif not (nb_e.get("k") == "lit" and nb_e["v"] == want):
            res.fail(key, facts.where(fn, lit), "hand-built `%s %s` declares nb_bytes = %s, encoded length is %d" % (mn, optxt, expr_text(nb_e), want))

    for fn in facts.fns:
        if fn["name"] == "asm" and GEN_QUAL in fn["qual"]:
            continue
        pnames = [p["name"].replace("mut ", "").strip() for p in fn["params"]]
        for lit in struct_literals(fn["body"], "AsmInstruction"):
            n += 1
            fields = {f["name"]: f["e"] for f in lit["fields"]}
            mn_e = fields.get("mnemonic")
            if mn_e is not None and mn_e.get("k") == "path" and len(mn_e["segs"]) == 1 and mn_e["segs"][0] in pnames:
                # a constructor: the literal's fields are the function's parameters; checked at its call sites
                fmap = {}
                for fname2, e in fields.items():
                    base = e
                    while base.get("k") in ("mcall", "ref", "unary") and (base.get("k") != "mcall" or base["method"] in ("into", "to_string", "clone", "to_owned")):
                        base = base["recv"] if base.get("k") == "mcall" else base["e"]
                    if base.get("k") == "path" and len(base["segs"]) == 1 and base["segs"][0] in pnames:
                        fmap[fname2] = ("param", pnames.index(base["segs"][0]))
                    else:
                        fmap[fname2] = ("expr", e)
                constructors[fn["name"]] = (fn, fmap)
                res.inst("T-HANDBUILT:%s:constructor" % fn["name"], True, {"fields_from_parameters": sorted(k for k, v in fmap.items() if v[0] == "param")})
                continue
            check(fn, lit, fields)
    # call sites of constructors
    for cname, (cfn, fmap) in constructors.items():
        qual = cfn["qual"].split("<")[0].strip()
        for fn in facts.fns:
            for c in walk(fn["body"]):
                if c.get("k") == "call" and c["func"].get("k") == "path" and c["func"]["segs"][-1] == cname and (len(c["func"]["segs"]) == 1 or c["func"]["segs"][-2] in (qual, "Self")):
                    n += 1
                    fields = {}
                    for fname2, (kind, v) in fmap.items():
                        if kind == "param":
                            if v < len(c["args"]):
                                fields[fname2] = c["args"][v]
                        else:
                            fields[fname2] = v
                    # a string literal operand passed as &str stands for `"..".into()`
                    check(fn, c, fields)
    res.note("%d AsmInstruction literals / constructor calls outside asm()" % n)


def _accumulation(a):
    """text of what the statement adds to its left-hand side: `acc += x` or `acc = acc.saturating_add(x)` / checked_add; else None"""
    if a.get("k") == "assignop" and a["op"] == "+":
        return expr_text(a["r"])
    if a.get("k") == "assign" and a["r"].get("k") == "mcall" and a["r"]["method"] in ("saturating_add", "checked_add") and len(a["r"]["args"]) == 1 \
            and expr_text(a["r"]["recv"]) == expr_text(a["l"]):
        t = expr_text(a["r"]["args"][0])
        return t[1:] if t.startswith("*") else t
    return None


def asmline_contributions(facts, fn):
    """For each `match` over AsmLine values whose arms accumulate (`acc += x`, `acc = acc.saturating_add(x)`), map variant -> contribution text."""
    out = []
    variants = facts.enum_variants("AsmLine")
    for m in walk(fn["body"]):
        if m.get("k") != "match":
            continue
        table = {}
        relevant = False
        accs = set()
        for arm in m["arms"]:
            pats = arm["pat"]["alts"] if arm["pat"].get("k") == "or" else [arm["pat"]]
            for p in pats:
                inner = p
                # Some(AsmLine::X(..)) -> AsmLine::X(..)
                while inner.get("k") in ("tstruct", "ref") and inner.get("segs", [None])[-1] == "Some" or inner.get("k") == "ref":
                    inner = inner["elems"][0] if inner.get("k") == "tstruct" else inner["pat"]
                if inner.get("k") in ("tstruct", "path") and inner["segs"][-1] in variants and (len(inner["segs"]) == 1 or inner["segs"][-2] == "AsmLine"):
                    var = inner["segs"][-1]
                    binds = [pat_text(e) for e in inner.get("elems", [])]
                    contrib = []
                    for a in walk(arm["body"]):
                        add = _accumulation(a)
                        if add is not None:
                            relevant = True
                            accs.add(expr_text(a["l"]))
                            t = add
                            for i, b in enumerate(binds):
                                if t == b:
                                    t = "payload%d" % i
                                elif t.startswith(b + "."):
                                    t = "payload%d%s" % (i, t[len(b):])
                            contrib.append(t)
                    table[var] = "+".join(sorted(contrib)) if contrib else "0"
                elif inner.get("k") == "wild" or (p.get("k") == "path" and p["segs"][-1] == "None"):
                    for a in walk(arm["body"]):
                        if _accumulation(a) is not None:
                            table["_"] = _accumulation(a)
        if relevant:
            out.append((m, table, accs))
    return out


ASMLINE_REF = {"Instruction": "payload0.nb_bytes", "Inline": "payload1", "Label": "0", "Comment": "0", "Dummy": "0"}


@rule("T-ASMLINE-SIBLINGS", floor=3,
      text="size_bytes and both distance walks of check_branches give every AsmLine variant the same byte contribution: Instruction -> nb_bytes, Inline -> declared size, Label/Comment/Dummy -> 0; all the arms of one walk add to one and the same counter (the walk upwards to bytes_above, the walk downwards to bytes_below)")
def t_asmline_siblings(facts, res, tier):
    fns = [facts.fn("size_bytes", "AssemblyCode"), facts.fn("check_branches", "AssemblyCode")]
    for fn in fns:
        tabs = asmline_contributions(facts, fn)
        want_n = 1 if fn["name"] == "size_bytes" else 2
        if len(tabs) < want_n:
            raise AnchorMissing("%s: expected %d byte-accumulating match(es) over AsmLine, found %d" % (fn["name"], want_n, len(tabs)))
        for i, (m, table, accs) in enumerate(tabs):
            key = "T-ASMLINE-SIBLINGS:%s:%d:one-accumulator" % (fn["name"], i)
            res.inst(key, True, {"fn": fn["name"], "acc": sorted(accs)})
            if len(accs) != 1:
                res.fail(key, facts.where(fn, m), "%s: the arms of one walk over the lines add to different counters (%s): the bytes of one kind of line are counted on the other side of the branch" % (fn["name"], ", ".join(sorted(accs))))
            for var, want in ASMLINE_REF.items():
                got = table.get(var, table.get("_", "0"))
                key = "T-ASMLINE-SIBLINGS:%s:%d:%s" % (fn["name"], i, var)
                res.inst(key, want != "0", {"fn": fn["name"], "acc": sorted(accs), "variant": var, "contribution": got})
                if got != want:
                    res.fail(key, facts.where(fn, m), "%s counts `%s` bytes for AsmLine::%s, expected `%s`" % (fn["name"], got, var, want))
    res.exhaustive = True


@rule("T-OPT-SIZE", floor=3,
      text="optimize() only overwrites a line with AsmLine::Dummy or with a clone of a neighbouring line; it builds no instruction and never assigns nb_bytes")
def t_opt_size(facts, res, tier):
    fn = facts.fn("optimize", "AssemblyCode")
    for lit in struct_literals(fn["body"], "AsmInstruction"):
        res.fail("T-OPT-SIZE:builds-instruction", facts.where(fn, lit), "optimize() constructs an AsmInstruction")
    clones = {}
    for n in walk(fn["body"]):
        if n.get("k") == "let" and n["pat"].get("k") == "ident" and "init" in n:
            clones[n["pat"]["name"]] = n["init"]
    def is_clone_init(e):
        # if let Some(f) = &first { (**f).clone() } else { AsmLine::Dummy }
        texts = [expr_text(x) for x in walk(e) if x.get("k") in ("mcall", "path") and x is not e]
        body_vals = []
        if e.get("k") == "if":
            for br in (e["then"], e.get("else")):
                if br is None:
                    continue
                last = br["stmts"][-1] if br.get("k") == "block" and br["stmts"] else br
                body_vals.append(expr_text(last))
            return all(v.endswith(".clone()") or v == "AsmLine::Dummy" for v in body_vals)
        return expr_text(e).endswith(".clone()")
    n_assign = 0
    for n in walk(fn["body"]):
        if n.get("k") in ("assign", "assignop"):
            lt = expr_text(n["l"])
            if ".nb_bytes" in lt or ".dasm_operand" in lt or ".mnemonic" in lt:
                res.fail("T-OPT-SIZE:field-write", facts.where(fn, n), "optimize() assigns `%s`" % lt)
            ltxt = n["l"]
            # writes through the line references: *first.unwrap() = .. / (**f) = ..
            if n["l"].get("k") == "unary" and n["l"]["op"] == "*":
                n_assign += 1
                rt = expr_text(n["r"])
                ok = rt == "AsmLine::Dummy" or (n["r"].get("k") == "path" and len(n["r"]["segs"]) == 1 and n["r"]["segs"][0] in clones and is_clone_init(clones[n["r"]["segs"][0]]))
                key = "T-OPT-SIZE:linewrite:%s" % ("Dummy" if rt == "AsmLine::Dummy" else "swap")
                res.inst(key + ":%d" % n_assign, True, {"lhs": lt, "rhs": rt})
                if not ok:
                    res.fail("T-OPT-SIZE:linewrite:%s" % rt, facts.where(fn, n), "optimize() overwrites a line with `%s` (neither Dummy nor a clone of an existing line)" % rt)


@rule("T-ZP-THRESHOLD", floor=1,
      text="a constant-address pointer leaves the zero-page memory class exactly when its address does not fit in one byte (address > 0xff): asm() sizes operands from that class, so the boundary decides 2- vs 3-byte encodings")
def t_zp_threshold(facts, res, tier):
    fn = facts.fn("compile_var_decl", "CompilerState")
    found = []
    for n in walk(fn["body"]):
        if n.get("k") == "if":
            ct = expr_text(n["cond"])
            tt = expr_text(n["then"]).replace(" ", "")
            if "memory=VariableMemory::" in tt and "Zeropage" not in tt and re.search(r"[<>]=?", ct) and any(x.get("k") == "lit" and x["ty"] == "int" for x in walk(n["cond"])):
                found.append(n)
    if not found:
        raise AnchorMissing("compile_var_decl: the address test that moves a constant pointer out of the zero-page class was not found")
    for n in found:
        cmpn = [x for x in walk(n["cond"]) if x.get("k") == "binary" and x["op"] in (">", ">=", "<", "<=") and (x["r"].get("k") == "lit" or x["l"].get("k") == "lit")]
        key = "T-ZP-THRESHOLD:%s" % expr_text(n["then"]).replace(" ", "")[:40]
        if not cmpn:
            res.inst(key)
            res.fail(key, facts.where(fn, n), "cannot read the address comparison `%s`" % expr_text(n["cond"]))
            continue
        c = cmpn[0]
        if c["r"].get("k") == "lit":
            op, k = c["op"], c["r"]["v"]
        else:
            op, k = {">": "<", "<": ">", ">=": "<=", "<=": ">="}[c["op"]], c["l"]["v"]
        # smallest address that leaves the zero-page class
        first_out = k + 1 if op == ">" else (k if op == ">=" else None)
        res.inst(key, True, {"condition": expr_text(n["cond"]), "first_non_zero_page_address": first_out})
        if first_out != 0x100:
            res.fail(key, facts.where(fn, n), "a constant pointer is treated as zero page up to address %s; the 6502 zero page ends at 0xff, so accesses to 0x100..%s are sized 2 bytes but assemble to 3" % (
                hex(first_out - 1) if first_out else "?", hex(first_out - 1) if first_out else "?"))
