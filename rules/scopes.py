"""Lexically scoped traversal of a function body.

`scoped(fn)` yields (node, env, doms) for every expression/statement node:

* env  : name -> Binding for every local name in scope at the node.  A Binding records how the
         name was bound: by a pattern (constructor path + argument position + scrutinee), by a
         `let` (initialiser), as a parameter, by a `for`, or by a closure parameter.
* doms : the statements/conditions that are known to have been evaluated (and, for conditions,
         to have held) whenever control reaches the node: earlier statements of every enclosing
         block, the conditions of enclosing `if`/`while` (with polarity), the scrutinee/pattern of
         enclosing match arms.  A list of ("stmt", node) | ("cond", node, polarity) |
         ("arm", scrutinee, pattern).

This is syntactic dominance: a statement earlier in an enclosing block has been executed to
completion (or diverged, in which case the node is not reached).
"""
from astlib import walk


class Binding:
    __slots__ = ("name", "src", "ctor", "idx", "field", "scrut", "init", "pat", "depth", "ty")

    def __init__(self, name, src, ctor=None, idx=None, field=None, scrut=None, init=None, pat=None, depth=0):
        self.name = name
        self.src = src          # 'pat' | 'let' | 'param' | 'for' | 'closure'
        self.ctor = ctor        # innermost enclosing constructor path of the binder in its pattern, e.g. ['ExprType','Absolute']
        self.idx = idx          # position in that constructor's tuple
        self.field = field      # field name for struct patterns
        self.scrut = scrut      # scrutinee expression the whole pattern is matched against
        self.init = init        # let initialiser (when the pattern is a plain identifier: the value itself)
        self.pat = pat
        self.depth = depth
        self.ty = None

    def __repr__(self):
        return "<%s %s %s#%s>" % (self.name, self.src, "::".join(self.ctor or []), self.idx)


def pat_bindings(pat, src, scrut=None, init=None):
    """All binders of a structured pattern with their innermost constructor."""
    out = []

    def rec(p, ctor, idx, field, depth):
        if not isinstance(p, dict):
            return
        k = p.get("k")
        if k == "ident":
            out.append(Binding(p["name"], src, ctor, idx, field, scrut, init if depth == 0 else None, pat, depth))
            if p.get("sub"):
                rec(p["sub"], ctor, idx, field, depth + 1)
        elif k == "tstruct":
            for i, e in enumerate(p.get("elems", [])):
                rec(e, p.get("segs"), i, None, depth + 1)
        elif k == "struct":
            for f in p.get("fields", []):
                rec(f.get("pat") or f.get("p") or f, p.get("segs"), None, f.get("name"), depth + 1)
        elif k == "or":
            for a in p.get("alts", []):
                rec(a, ctor, idx, field, depth)
        elif k in ("tuple", "slice"):
            for i, e in enumerate(p.get("elems", [])):
                rec(e, ctor if ctor else ["(tuple)"], i if not ctor else idx, field, depth + 1)
        elif k in ("ref", "box", "paren"):
            rec(p.get("pat") or p.get("p") or p.get("e"), ctor, idx, field, depth)
        else:
            for v in p.values():
                if isinstance(v, dict):
                    rec(v, ctor, idx, field, depth + 1)
                elif isinstance(v, list):
                    for x in v:
                        rec(x, ctor, idx, field, depth + 1)

    rec(pat, None, None, None, 0)
    return out


def _cond_parts(cond):
    """Split a condition into its `&&` operands, in evaluation order."""
    if isinstance(cond, dict) and cond.get("k") == "binary" and cond.get("op") == "&&":
        return _cond_parts(cond["l"]) + _cond_parts(cond["r"])
    return [cond]


def scoped(fn):
    env0 = {}
    for p in fn.get("params", []):
        if isinstance(p, dict):
            if "k" not in p and p.get("name"):
                b = Binding(p["name"], "param")
                b.ty = p.get("ty")
                env0[p["name"]] = b
            else:
                for b in pat_bindings(p.get("pat", p), "param"):
                    env0[b.name] = b
    out = []
    _visit(fn["body"], env0, [], out)
    return out


def _visit(n, env, doms, out):
    if isinstance(n, list):
        for x in n:
            _visit(x, env, doms, out)
        return
    if not isinstance(n, dict):
        return
    k = n.get("k")
    if k is None:
        # match arm reached directly (should not happen: handled in 'match')
        for v in n.values():
            _visit(v, env, doms, out)
        return
    out.append((n, env, doms))
    if k == "block":
        e = dict(env)
        d = list(doms)
        for s in n.get("stmts", []):
            _visit(s, e, d, out)
            if isinstance(s, dict) and s.get("k") == "let":
                e = dict(e)
                for b in pat_bindings(s.get("pat"), "let", scrut=s.get("init"), init=s.get("init")):
                    e[b.name] = b
            d = d + [("stmt", s)]
        return
    if k == "let":
        _visit(n.get("init"), env, doms, out)
        return
    if k in ("if", "while"):
        e = dict(env)
        d = list(doms)
        for part in _cond_parts(n["cond"]):
            _visit(part, e, d, out)
            if isinstance(part, dict) and part.get("k") == "letcond":
                e = dict(e)
                for b in pat_bindings(part.get("pat"), "pat", scrut=part.get("e")):
                    e[b.name] = b
                d = d + [("arm", part.get("e"), part.get("pat"))]
            else:
                d = d + [("cond", part, True)]
        body = n.get("then") if k == "if" else n.get("body")
        _visit(body, e, d, out)
        if k == "if" and n.get("else") is not None:
            parts = _cond_parts(n["cond"])
            d2 = list(doms)
            if len(parts) == 1 and parts[0].get("k") != "letcond":
                d2 = d2 + [("cond", parts[0], False)]
            _visit(n["else"], env, d2, out)
        return
    if k == "match":
        _visit(n["e"], env, doms, out)
        for a in n.get("arms", []):
            e = dict(env)
            for b in pat_bindings(a.get("pat"), "pat", scrut=n["e"]):
                e[b.name] = b
            d = doms + [("arm", n["e"], a.get("pat"))]
            if a.get("guard") is not None:
                _visit(a["guard"], e, d, out)
                d = d + [("cond", a["guard"], True)]
            _visit(a.get("body"), e, d, out)
        return
    if k == "for":
        _visit(n.get("iter"), env, doms, out)
        e = dict(env)
        for b in pat_bindings(n.get("pat"), "for", scrut=n.get("iter")):
            e[b.name] = b
        _visit(n.get("body"), e, doms, out)
        return
    if k == "closure":
        e = dict(env)
        for p in n.get("params", []):
            if isinstance(p, dict):
                if "k" not in p and p.get("name"):
                    e[p["name"]] = Binding(p["name"], "closure")
                else:
                    for b in pat_bindings(p.get("pat", p), "closure"):
                        e[b.name] = b
        _visit(n.get("body"), e, doms, out)
        return
    if k == "macro" and n.get("pat") is not None and n.get("e") is not None:
        _visit(n["e"], env, doms, out)
        return
    for key, v in n.items():
        if key in ("loc", "pat", "params"):
            continue
        if isinstance(v, (dict, list)):
            _visit(v, env, doms, out)


def strip(e):
    """Strip references, derefs, clones, conversions and as_str() from a name expression."""
    while isinstance(e, dict):
        k = e.get("k")
        if k in ("ref", "cast", "try"):
            e = e["e"]
        elif k == "unary" and e.get("op") in ("*", "&"):
            e = e["e"]
        elif k == "mcall" and e["method"] in ("clone", "into", "to_string", "as_str", "to_owned", "as_ref", "borrow", "as_mut", "deref") and not e.get("args"):
            e = e["recv"]
        elif k == "call" and e["func"].get("k") == "path" and e["func"]["segs"][-1] in ("from", "new") and e["func"]["segs"][0] in ("String", "Box", "Some") and len(e.get("args", [])) == 1:
            e = e["args"][0]
        else:
            break
    return e


def simple_name(e):
    e = strip(e)
    if isinstance(e, dict) and e.get("k") == "path" and len(e["segs"]) == 1:
        return e["segs"][0]
    return None


def _is_map_field(e, maps):
    """`<anything>.variables` / `<anything>.functions` -> the map name."""
    e = strip(e)
    if isinstance(e, dict) and e.get("k") == "field" and e["name"] in maps:
        return e["name"]
    return None


def lookup_helpers(facts, maps):
    """Functions that look a parameter up in one of the maps.
    -> {name: (map, param index, 'panics' | 'checked')}"""
    out = {}
    for fn in facts.fns:
        params = [p.get("name") for p in fn["params"] if p.get("name") != "self"]
        for n in walk(fn["body"]):
            if n.get("k") == "mcall" and n["method"] in ("get", "get_mut") and n.get("args"):
                m = _is_map_field(n["recv"], maps)
                key = simple_name(n["args"][0])
                if m and key in params:
                    # is this get() unwrapped?
                    unwrapped = any(x.get("k") == "mcall" and x["method"] in ("unwrap", "expect") and x["recv"] is n for x in walk(fn["body"]))
                    small = sum(1 for _ in walk(fn["body"])) < 60
                    if unwrapped and small:
                        out[fn["name"]] = (m, params.index(key), "panics")
                    elif small and fn["ret"].replace(" ", "").startswith("Result<"):
                        out[fn["name"]] = (m, params.index(key), "checked")
    return out
