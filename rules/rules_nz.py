"""T-NZ-PRECOND: flag claims made without emitting anything are backed by the producer.

Some generator functions record `flags = FlagsState::A` (N/Z are those of the accumulator) on a
path that has emitted nothing yet, and then branch on N/Z without a compare (an accumulator operand
compared with the constant 0).  That is only right if the caller has just produced the accumulator
value and nothing that changes N/Z was emitted since.  This rule finds those entry claims, and at
every call site that can reach them checks, in the caller's own emission order:
  * the operand passed is the result of a producer call (or of an A-writing instruction emitted
    by the caller itself),
  * nothing between the producer and the call can change N/Z - no instruction that sets N/Z, no
    label (join), no inline code, no call that may emit such things for the operand kinds at hand,
  * the call is not in a loop that the producer is outside of while the loop body changes N/Z
    (the second iteration would rely on flags of the first).
A caller that merely passes its own parameter on inherits the obligation.
"""
import re

from astlib import expr_text
from core import rule
from genmodel import (MN, GEN_QUAL, gen_fns, fn_paths, is_error_exit, domain_of, variant_flow)
from walker import Const, EnumV, Sym, Tup, norm_ty
from rules_flow import ev_mnemonics

EMIT = ("asm", "sasm", "sasm_protected")
BRANCHERS = {"generate_branch_instruction", "generate_branch_instruction_alt"}


def nz_effect(facts, st, e):
    """'A'/'X'/'Y': sets N/Z from that register; 'other': changes N/Z otherwise; None: leaves N/Z."""
    k = e["kind"]
    if k in ("label", "inline", "push_code"):
        return "other"
    if k == "asm_restore_y":
        return "Y"
    if k in EMIT:
        m = ev_mnemonics(facts, st, e)
        if not m:
            return "other"
        outs = set()
        for mn in m:
            d = MN.get(mn)
            if d is None:
                outs.add("other")
            elif not d["nz"]:
                outs.add(None)
            elif mn in ("CMP", "CPX", "CPY", "BIT"):
                outs.add("other")
            else:
                w = d.get("writes_reg") or []
                outs.add("A" if "A" in w else "X" if "X" in w else "Y" if "Y" in w else "other")
        if len(outs) == 1:
            return next(iter(outs))
        return "other"
    return None


def ret_kind(value):
    v = value
    if isinstance(v, EnumV) and v.enum == "Result" and v.variant == "Ok" and v.payload:
        v = v.payload[0]
    if isinstance(v, EnumV) and v.enum == "ExprType":
        return v.variant
    if isinstance(v, Sym):
        return "sym:" + v.key
    return None


@rule("T-NZ-PRECOND", floor=2,
      text="a flag claim made before anything is emitted (`flags = FlagsState::A` in the accumulator arm of generate_condition_ex, followed by "
           "a branch without a compare when the other operand is the constant 0) is backed at every call site: the accumulator operand is the "
           "result of a producer call or of an A-writing instruction, nothing that can change N/Z is emitted between producer and call, and the "
           "call is not repeated in a loop whose body changes N/Z while the producer sits outside the loop")
def t_nz_precond(facts, res, tier):
    RS, PS, FS, variants_of = variant_flow(facts)
    allv = frozenset(facts.enum_variants("ExprType"))
    fns = {f["name"]: f for f in gen_fns(facts) if f["name"] != "new"}
    eparams = {}
    for name, f in fns.items():
        ps = [p for p in f["params"] if p["name"] != "self"]
        eparams[name] = [(i, p["name"].replace("mut ", "").strip()) for i, p in enumerate(ps) if norm_ty(p["ty"]) == "ExprType"]
    paths = {n: [(k, v, st) for (k, v, st) in fn_paths(facts, f) if not is_error_exit(v)] for n, f in fns.items()}

    # A. may a function change N/Z on the paths that return a given kind?
    quiet = {}   # (fn, kind) -> True if some path returning kind emits nothing N/Z-relevant and makes no call
    for n, ps in paths.items():
        for k, v, st in ps:
            rk = ret_kind(v)
            if rk is None:
                continue
            noisy = any(nz_effect(facts, st, e) is not None or e["kind"] == "call" for e in st.events)
            quiet.setdefault((n, rk), True)
            if noisy:
                quiet[(n, rk)] = False

    # B. entry claims: (fn, param, reg, constraints on ExprType params)
    entry_claims = {}
    for n, ps in paths.items():
        for k, v, st in ps:
            claimed = None
            for i, e in enumerate(st.events):
                if e["kind"] == "set" and e["field"] == "flags" and isinstance(e["value"], EnumV) and e["value"].variant in ("A", "X", "Y") and claimed is None:
                    claimed = (i, e)
                    continue
                eff = nz_effect(facts, st, e)
                if claimed is None and (eff is not None or e["kind"] == "call"):
                    break
                if claimed is not None:
                    if eff is not None:
                        break
                    if e["kind"] == "call":
                        if e["callee"] in BRANCHERS:
                            reg = claimed[1]["value"].variant
                            doms = {}
                            for (pi, pn) in eparams[n]:
                                d = domain_of(st, Sym(pn, "ExprType"), facts, universe=allv)
                                doms[pn] = frozenset(d) if d is not None else allv
                            # which parameter is the claimed register?
                            for (pi, pn) in eparams[n]:
                                if doms[pn] == frozenset([reg]):
                                    entry_claims.setdefault((n, pn, reg), []).append((doms, claimed[1]))
                        break
    for (n, pn, reg), lst in sorted(entry_claims.items()):
        res.inst("T-NZ-PRECOND:entry-claim:%s:%s=%s" % (n, pn, reg), True, {"paths": len(lst)})

    # B'. a branch on the flags of an accumulator operand supplied by the caller, emitted before anything
    # else, must be guarded by the flag knowledge (flags_ok answered true) unless it is an entry claim (above)
    for n, ps in sorted(paths.items()):
        scanned = 0
        unguarded = None
        for k, v, st in ps:
            b = next((i for i, e in enumerate(st.events) if e["kind"] == "call" and e["callee"] in BRANCHERS), None)
            if b is None:
                continue
            pre = st.events[:b]
            if any(nz_effect(facts, st, e) is not None or (e["kind"] == "call") for e in pre):
                continue
            accs = []
            for (pi, pn) in eparams[n]:
                d = domain_of(st, Sym(pn, "ExprType"), facts, universe=allv)
                if d is not None and set(d) == {"A"}:
                    accs.append(pn)
            if not accs:
                continue
            scanned += 1
            guarded = any(e["kind"] == "pred" and e["result"] is True for e in pre)
            claimed = any(e["kind"] == "set" and e["field"] == "flags" and isinstance(e["value"], EnumV) and e["value"].variant == "A" for e in pre)
            if not guarded and not claimed:
                unguarded = st.events[b]
        if scanned:
            key = "T-NZ-PRECOND:branch-on-caller-flags:%s" % n
            res.inst(key, True, {"paths": scanned})
            if unguarded is not None:
                res.fail(key, facts.where(fns[n], unguarded["node"]),
                         "%s branches on N/Z for an accumulator operand supplied by its caller without emitting a compare and without asking the flag knowledge "
                         "(flags_ok) whether N/Z are those of the accumulator" % n)
    for n in sorted(paths):
        if any(e["kind"] == "call" and e["callee"] in BRANCHERS for (k, v, st) in paths[n] for e in st.events):
            res.inst("T-NZ-PRECOND:scanned:%s" % n, True)

    # C./D. call sites
    reported = {}
    changed = True
    rounds = 0
    while changed and rounds < 6:
        changed = False
        rounds += 1
        for caller, ps in paths.items():
            for k, v, st in ps:
                evs = st.events
                for ci, e in enumerate(evs):
                    if e["kind"] != "call" or e["callee"] not in fns:
                        continue
                    g = e["callee"]
                    for (gn, pn, reg), lst in list(entry_claims.items()):
                        if gn != g:
                            continue
                        pidx = [i for (i, q) in eparams[g] if q == pn][0]
                        if pidx >= len(e["args"]):
                            continue
                        a = e["args"][pidx]
                        # is the claimed kind possible for this argument, and are the other constraints compatible?
                        def kinds(x):
                            if isinstance(x, EnumV) and x.enum == "ExprType":
                                return frozenset([x.variant])
                            vs = variants_of(x, st, caller) if x is not None else None
                            return frozenset(vs) if vs else allv
                        if reg not in kinds(a):
                            continue
                        compatible = []
                        for doms, cnode in lst:
                            okc = True
                            for (qi, qn) in eparams[g]:
                                if qi < len(e["args"]) and not (kinds(e["args"][qi]) & doms[qn]):
                                    okc = False
                            if okc:
                                compatible.append(doms)
                        if not compatible:
                            continue
                        key = "T-NZ-PRECOND:%s->%s:%s" % (caller, g, reg)
                        res.inst(key, True, {"site": facts.where(fns[caller], e["node"])})
                        # locate the producer
                        prod = None
                        why = None
                        if isinstance(a, Sym) and a.key.startswith("ret"):
                            m = re.match(r"^ret(\d+):(\w+)$", a.key)
                            prod = int(m.group(1)) - 1 if m else None
                        elif isinstance(a, Sym) and a.key in [q for (_, q) in eparams[caller]]:
                            # pass-through of the caller's own parameter: inherit unless something was emitted before
                            noisy = [x for x in evs[:ci] if nz_effect(facts, st, x) is not None or x["kind"] == "call"]
                            if not noisy:
                                cd = {}
                                for (qi, qn) in eparams[caller]:
                                    d = domain_of(st, Sym(qn, "ExprType"), facts, universe=allv)
                                    cd[qn] = frozenset(d) if d is not None else allv
                                cd[a.key] = frozenset([reg])
                                kk = (caller, a.key, reg)
                                if kk not in entry_claims:
                                    entry_claims[kk] = [(cd, e)]
                                    changed = True
                                continue
                            prod = -1
                        elif isinstance(a, EnumV):
                            # a literal accumulator operand: the caller itself must have just written A
                            prod = -2
                        else:
                            why = "the accumulator operand is of unknown origin"
                        if why is None:
                            start = prod + 1 if prod is not None and prod >= 0 else 0
                            between = evs[start:ci]
                            last = None
                            bad = None
                            for x in between:
                                eff = nz_effect(facts, st, x)
                                if eff is not None:
                                    last = eff
                                    if eff != reg:
                                        bad = "%s (N/Z then describe %s)" % (expr_text(x["node"])[:40] if "node" in x else x["kind"], eff if eff != "other" else "something else")
                                    else:
                                        bad = None
                                elif x["kind"] == "call" and x["callee"] in fns:
                                    # a call whose result is another operand of this very call, and which is
                                    # silent for the kinds that the claiming path admits
                                    silent = False
                                    for (qi, qn) in eparams[g]:
                                        if qi < len(e["args"]) and isinstance(e["args"][qi], Sym) and e["args"][qi].key == "ret%d:%s" % (evs.index(x) + 1, x["callee"]):
                                            ks = set()
                                            for doms in compatible:
                                                ks |= set(doms[qn])
                                            if ks and all(quiet.get((x["callee"], kk2), False) for kk2 in ks if (x["callee"], kk2) in quiet or True) and all((x["callee"], kk2) in quiet for kk2 in ks):
                                                silent = True
                                    if not silent:
                                        bad = "a call to %s, which may emit code that changes N/Z" % x["callee"]
                                        last = "other"
                            if prod == -2 and last != reg and bad is None:
                                bad = "no instruction writing %s precedes the call in %s" % (reg, caller)
                            if prod == -1 and bad is None:
                                pass
                            # loop-carried: call inside a loop the producer is outside of
                            depth = 0
                            open_loops = []
                            for j, x in enumerate(evs[:ci]):
                                if x["kind"] == "loop_begin":
                                    open_loops.append(j)
                                elif x["kind"] == "loop_end" and open_loops:
                                    open_loops.pop()
                            for lb in open_loops:
                                if prod is not None and prod < lb:
                                    # does the loop body change N/Z anywhere?
                                    end = next((j for j in range(lb + 1, len(evs)) if evs[j]["kind"] == "loop_end" and evs[j]["id"] == evs[lb]["id"]), len(evs))
                                    body = evs[lb + 1:end]
                                    culprit = next((x for x in body if nz_effect(facts, st, x) not in (None, reg) or (x["kind"] == "call" and x is not e)), None)
                                    if culprit is not None:
                                        bad = "the call is repeated by a loop while the operand is produced before the loop; the loop body (%s) changes N/Z, so from the second round on the flags are not those of %s" % (
                                            culprit.get("callee") or culprit["kind"], reg)
                            why = bad
                        if why and key not in reported:
                            reported[key] = (caller, e["node"], why, g, reg)
    for key, (caller, node, why, g, reg) in sorted(reported.items()):
        res.fail(key, facts.where(fns[caller], node),
                 "%s hands %s an operand that may be the accumulator; on the path where the other operand is the constant 0, %s records that N/Z describe %s without "
                 "emitting anything and branches on them, but: %s" % (caller, g, g, reg, why))
