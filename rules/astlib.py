"""Facts loading and syntax-tree helpers shared by all rules.

Facts come from engines/astx (one JSON document per Cargo feature configuration),
re-extracted from /repo's working tree and cached by content hash.
"""
import hashlib
import re
import json
import os
import subprocess
import sys

VERIF = os.path.dirname(os.path.dirname(os.path.abspath(__file__)))
REPO = os.environ.get("VERIF_REPO", "/repo")
ASTX = os.path.join(VERIF, "engines", "astx", "target", "release", "astx")
CACHE = os.path.join(VERIF, ".cache")

CONFIGS = {"default": "-", "atari2600": "atari2600", "atari7800": "atari7800"}


def tree_hash(repo=None):
    repo = repo or REPO
    h = hashlib.sha256()
    paths = []
    for root, dirs, files in os.walk(os.path.join(repo, "src")):
        dirs.sort()
        for f in sorted(files):
            paths.append(os.path.join(root, f))
    for extra in ("Cargo.toml", "Cargo.lock"):
        p = os.path.join(repo, extra)
        if os.path.exists(p):
            paths.append(p)
    for p in paths:
        h.update(os.path.relpath(p, repo).encode())
        h.update(b"\0")
        with open(p, "rb") as fh:
            h.update(fh.read())
        h.update(b"\0")
    # the extractor itself is part of the key
    if os.path.exists(ASTX):
        st = os.stat(ASTX)
        h.update(("%d:%d" % (st.st_size, int(st.st_mtime))).encode())
    return h.hexdigest()[:24]


class FactsError(Exception):
    pass


def ensure_astx():
    if not os.path.exists(ASTX):
        # build on demand (setup_cmd normally did this)
        r = subprocess.run(
            ["cargo", "build", "--release", "--offline"],
            cwd=os.path.join(VERIF, "engines", "astx"),
            capture_output=True,
            text=True,
            env=dict(os.environ, CARGO_NET_OFFLINE="true"),
        )
        if r.returncode != 0 or not os.path.exists(ASTX):
            raise FactsError("cannot build astx: " + r.stderr[-2000:])


_loaded = {}


def prune_cache(keep=150):
    """The cache is keyed by tree hash: every scratch copy analysed (mutants, seeded changes) adds
    entries.  Keep the most recently used few."""
    try:
        files = [os.path.join(CACHE, f) for f in os.listdir(CACHE) if f.endswith(".json")]
        files.sort(key=lambda f: os.stat(f).st_mtime, reverse=True)
        for f in files[keep:]:
            os.remove(f)
    except OSError:
        pass


def load_facts(config="default", repo=None):
    repo = repo or REPO
    key = (config, repo)
    if key in _loaded:
        return _loaded[key]
    ensure_astx()
    os.makedirs(CACHE, exist_ok=True)
    th = tree_hash(repo)
    out = os.path.join(CACHE, "astx-%s-%s.json" % (th, config))
    if not os.path.exists(out):
        tmp = out + ".%d.tmp" % os.getpid()
        r = subprocess.run([ASTX, "dump", repo, CONFIGS[config], tmp], capture_output=True, text=True)
        if r.returncode != 0:
            raise FactsError("astx failed: " + r.stderr[-2000:])
        os.replace(tmp, out)
        prune_cache()
    else:
        os.utime(out, None)
    with open(out) as fh:
        doc = json.load(fh)
    if doc.get("errors"):
        raise FactsError("astx reported: %s" % doc["errors"])
    facts = Facts(doc, config, repo)
    _loaded[key] = facts
    return facts


def load_file_facts(path, features="-"):
    """Facts for a single stand-alone fixture file."""
    ensure_astx()
    os.makedirs(CACHE, exist_ok=True)
    with open(path, "rb") as fh:
        hh = hashlib.sha256(fh.read()).hexdigest()[:16]
    out = os.path.join(CACHE, "astx-file-%s-%s.json" % (hh, features.replace(",", "_")))
    if not os.path.exists(out):
        r = subprocess.run([ASTX, "file", path, features, out], capture_output=True, text=True)
        if r.returncode != 0:
            raise FactsError("astx failed: " + r.stderr[-2000:])
    with open(out) as fh:
        doc = json.load(fh)
    if doc.get("errors"):
        raise FactsError("astx reported: %s" % doc["errors"])
    return Facts(doc, "fixture", os.path.dirname(path))


def regex_asts(patterns):
    ensure_astx()
    r = subprocess.run([ASTX, "regex"], input=json.dumps(patterns), capture_output=True, text=True)
    if r.returncode != 0:
        raise FactsError("astx regex failed: " + r.stderr[-2000:])
    return json.loads(r.stdout)


class Facts:
    def __init__(self, doc, config, repo):
        self.doc = doc
        self.config = config
        self.repo = repo
        self.fns = doc["fns"]
        self.enums = {e["name"]: e for e in doc["enums"]}
        self.structs = {s["name"]: s for s in doc["structs"]}
        self.statics = doc["statics"]
        self.grammars = doc["grammars"]
        self._by_name = {}
        for f in self.fns:
            self._by_name.setdefault(f["name"], []).append(f)
        # variant name -> [enum names]
        self.variant_index = {}
        for e in doc["enums"]:
            for v in e["variants"]:
                self.variant_index.setdefault(v["name"], []).append(e["name"])

    def rel(self, path):
        try:
            return os.path.relpath(path, self.repo)
        except ValueError:
            return path

    def fn(self, name, qual_contains=None, required=True):
        cands = self._by_name.get(name, [])
        if qual_contains is not None:
            cands = [f for f in cands if qual_contains in f["qual"]]
        if len(cands) == 1:
            return cands[0]
        if not cands:
            if required:
                raise AnchorMissing("function `%s` not found" % name)
            return None
        raise AnchorMissing("function `%s` is ambiguous (%d candidates)" % (name, len(cands)))

    def fns_named(self, name):
        return self._by_name.get(name, [])

    def enum_variants(self, name):
        e = self.enums.get(name)
        if e is None:
            raise AnchorMissing("enum `%s` not found" % name)
        return [v["name"] for v in e["variants"]]

    def variant_fields(self, enum, variant):
        e = self.enums.get(enum)
        if not e:
            return None
        for v in e["variants"]:
            if v["name"] == variant:
                return v["fields"]
        return None

    def grammar_rules(self):
        out = {}
        for g in self.grammars:
            if "error" in g:
                raise AnchorMissing("grammar %s: %s" % (g["file"], g["error"]))
            for r in g["rules"]:
                out[r["name"]] = r
        return out

    def where(self, fn, node=None):
        """file:line string for reports."""
        f = self.rel(fn["file"])
        if node is not None and isinstance(node, dict) and "loc" in node:
            return "%s:%s" % (f, node["loc"].split(":")[0])
        return "%s:%s" % (f, fn["line"])


class AnchorMissing(Exception):
    pass


# ---------------------------------------------------------------------------
# generic traversal


def children(node):
    """Yield child nodes (dicts with 'k') of an expression/statement node."""
    if isinstance(node, dict):
        for k, v in node.items():
            if k in ("loc", "pat", "params"):
                continue  # patterns are reached explicitly through arm["pat"] etc., never by traversal
            if isinstance(v, dict):
                yield v
            elif isinstance(v, list):
                for x in v:
                    if isinstance(x, dict):
                        yield x


def walk(node):
    """Pre-order traversal over every dict node."""
    stack = [node]
    while stack:
        n = stack.pop()
        if isinstance(n, dict):
            yield n
            ch = list(children(n))
            ch.reverse()
            stack.extend(ch)


def walk_exprs(node, kinds=None):
    for n in walk(node):
        k = n.get("k")
        if k is None:
            continue
        if kinds is None or k in kinds:
            yield n


def path_text(node):
    if node.get("k") == "path":
        return "::".join(node["segs"])
    return None


def expr_text(n):
    """Canonical, whitespace-free printing used for atoms and symbolic keys.
    References, derefs and parentheses are transparent."""
    if n is None:
        return ""
    if not isinstance(n, dict):
        return str(n)
    k = n.get("k")
    if k == "lit":
        return json.dumps(n["v"]) if n["ty"] in ("str", "char") else str(n["v"]).lower() if n["ty"] == "bool" else str(n["v"])
    if k == "path":
        return "::".join(n["segs"])
    if k == "field":
        return expr_text(n["base"]) + "." + n["name"]
    if k == "index":
        return expr_text(n["base"]) + "[" + expr_text(n["idx"]) + "]"
    if k == "call":
        return expr_text(n["func"]) + "(" + ",".join(expr_text(a) for a in n["args"]) + ")"
    if k == "mcall":
        return expr_text(n["recv"]) + "." + n["method"] + "(" + ",".join(expr_text(a) for a in n["args"]) + ")"
    if k == "macro":
        if n["name"] == "matches" and "e" in n:
            return "matches!(" + expr_text(n["e"]) + "," + pat_text(n["pat"]) + ")"
        return n["name"] + "!(" + ",".join(expr_text(a) for a in n.get("args", [])) + ")" if "args" in n else n["name"] + "!(" + n["tokens"] + ")"
    if k == "unary":
        if n["op"] == "*":
            return expr_text(n["e"])
        return n["op"] + expr_text(n["e"])
    if k == "ref":
        return expr_text(n["e"])
    if k == "binary":
        return "(" + expr_text(n["l"]) + n["op"] + expr_text(n["r"]) + ")"
    if k == "cast":
        return expr_text(n["e"])
    if k == "try":
        return expr_text(n["e"]) + "?"
    if k == "tuple":
        return "(" + ",".join(expr_text(a) for a in n["elems"]) + ")"
    if k == "struct":
        return "::".join(n["segs"]) + "{" + ",".join(f["name"] + ":" + expr_text(f["e"]) for f in n["fields"]) + "}"
    if k == "letcond":
        return "let " + pat_text(n["pat"]) + "=" + expr_text(n["e"])
    if k == "block":
        return "{" + ";".join(expr_text(s) for s in n["stmts"]) + "}"
    if k == "if":
        return "if " + expr_text(n["cond"]) + expr_text(n["then"]) + (" else " + expr_text(n["else"]) if "else" in n else "")
    if k == "match":
        return "match " + expr_text(n["e"]) + "{" + ",".join(pat_text(a["pat"]) + "=>" + expr_text(a["body"]) for a in n["arms"]) + "}"
    if k == "return":
        return "return " + expr_text(n.get("e"))
    if k == "assign":
        return expr_text(n["l"]) + "=" + expr_text(n["r"])
    if k == "assignop":
        return expr_text(n["l"]) + n["op"] + "=" + expr_text(n["r"])
    if k == "closure":
        return "|..|" + expr_text(n["body"])
    if k == "range":
        return expr_text(n.get("start")) + ".." + expr_text(n.get("end"))
    if k == "let":
        return "let " + pat_text(n["pat"]) + "=" + expr_text(n.get("init"))
    if k == "for":
        return "for " + pat_text(n["pat"]) + " in " + expr_text(n["iter"]) + expr_text(n["body"])
    if k == "while":
        return "while " + expr_text(n["cond"]) + expr_text(n["body"])
    if k == "loop":
        return "loop" + expr_text(n["body"])
    if k == "break":
        return "break"
    if k == "continue":
        return "continue"
    if k == "array":
        return "[" + ",".join(expr_text(a) for a in n["elems"]) + "]"
    return "<" + str(k) + ">"


def pat_text(p):
    k = p.get("k")
    if k == "wild":
        return "_"
    if k == "ident":
        return p["name"]
    if k == "path":
        return "::".join(p["segs"])
    if k == "tstruct":
        return "::".join(p["segs"]) + "(" + ",".join(pat_text(e) for e in p["elems"]) + ")"
    if k == "struct":
        return "::".join(p["segs"]) + "{" + ",".join(f["name"] for f in p["fields"]) + "}"
    if k == "tuple":
        return "(" + ",".join(pat_text(e) for e in p["elems"]) + ")"
    if k == "lit":
        return json.dumps(p["v"])
    if k == "or":
        return "|".join(pat_text(e) for e in p["alts"])
    if k == "ref":
        return pat_text(p["pat"])
    if k == "rest":
        return ".."
    return p.get("text", "?")


def is_panic_macro(n):
    return n.get("k") == "macro" and n["name"] in ("unreachable", "panic", "unimplemented", "todo")


def body_is_panic(n):
    """An arm/branch body that does nothing but panic (possibly after logging)."""
    if is_panic_macro(n):
        return True
    if n.get("k") == "block":
        stmts = [s for s in n["stmts"] if not (s.get("k") == "macro" and s["name"] in ("debug", "error", "info", "warn", "trace"))]
        return len(stmts) >= 1 and all(is_panic_macro(s) for s in stmts)
    return False


def find_calls(node, method=None, func=None):
    """Yield mcall nodes with given method name / call nodes whose callee path ends with func."""
    for n in walk(node):
        if method is not None and n.get("k") == "mcall" and n["method"] == method:
            yield n
        if func is not None and n.get("k") == "call" and n["func"].get("k") == "path" and n["func"]["segs"][-1] == func:
            yield n


# ---------------------------------------------------------------------------
# overflow-safe arithmetic written with checked_* / wrapping_* reads as the operator it implements

_ARITH_METHODS = {"add": "+", "sub": "-", "mul": "*", "div": "/", "rem": "%", "shl": "<<", "shr": ">>"}


def _subst(node, name, repl):
    if isinstance(node, dict):
        if node.get("k") == "path" and node.get("segs") == [name]:
            return repl
        return {k: (_subst(v, name, repl) if k not in ("loc", "pat", "params") else v) for k, v in node.items()}
    if isinstance(node, list):
        return [_subst(x, name, repl) for x in node]
    return node


def plain_arith(node, closures=None, helpers=None):
    """A copy of `node` in which overflow-safe spellings are replaced by the plain operator they
    implement and error plumbing is removed:
        a.checked_add(b) / a.wrapping_add(b)          -> (a + b)      (sub, mul, div, rem, shl, shr alike)
        a.checked_neg() / a.wrapping_neg()            -> -a
        u32::try_from(r).ok().and_then(|s| l.checked_shl(s))   -> (l << r)
        e?   e.ok_or_else(..)   e.ok_or(..)   e.map_err(..)    -> e
        e.map(Ctor)                                   -> Ctor(e)
        f(e) where f is a local closure `|v| v.<plumbing>`     -> the plumbing applied to e
        *x                                            -> x
    so that a rule about which operator an arm computes reads both spellings alike."""
    closures = closures or {}
    helpers = helpers or {}

    def rec(n):
        if isinstance(n, list):
            return [rec(x) for x in n]
        if not isinstance(n, dict):
            return n
        k = n.get("k")
        if k == "try":
            return rec(n["e"])
        if k == "unary" and n.get("op") == "*":
            return rec(n["e"])
        if k == "ref":
            return rec(n["e"])
        if k == "mcall":
            m = n["method"]
            mm = None
            for pre in ("checked_", "wrapping_"):
                if m.startswith(pre):
                    mm = m[len(pre):]
            if mm in _ARITH_METHODS and len(n.get("args", [])) == 1:
                return {"k": "binary", "op": _ARITH_METHODS[mm], "l": rec(n["recv"]), "r": rec(n["args"][0]), "loc": n.get("loc")}
            if mm == "neg" and not n.get("args"):
                return {"k": "unary", "op": "-", "e": rec(n["recv"]), "loc": n.get("loc")}
            if m in ("ok_or_else", "ok_or", "map_err"):
                return rec(n["recv"])
            if m == "map" and len(n.get("args", [])) == 1 and n["args"][0].get("k") == "path":
                return {"k": "call", "func": n["args"][0], "args": [rec(n["recv"])], "loc": n.get("loc")}
            if m == "and_then" and len(n.get("args", [])) == 1 and n["args"][0].get("k") == "closure":
                c = n["args"][0]
                ps = [p.get("name") for p in c.get("params", []) if isinstance(p, dict)]
                r = n["recv"]
                # <conversion of X>.ok()
                if r.get("k") == "mcall" and r["method"] == "ok" and len(ps) == 1 and ps[0]:
                    conv = r["recv"]
                    x = None
                    if conv.get("k") == "call" and conv["func"].get("k") == "path" and conv["func"]["segs"][-1] in ("try_from", "from") and conv.get("args"):
                        x = conv["args"][0]
                    elif conv.get("k") == "mcall" and conv["method"] in ("try_into", "into"):
                        x = conv["recv"]
                    if x is not None:
                        return rec(_subst(c["body"], ps[0], x))
        if k == "call" and n["func"].get("k") == "path" and n["func"]["segs"][-1] in helpers and len(n.get("args", [])) == 2:
            return {"k": "binary", "op": helpers[n["func"]["segs"][-1]], "l": rec(n["args"][0]), "r": rec(n["args"][1]), "loc": n.get("loc")}
        if k == "call" and n["func"].get("k") == "path" and len(n["func"]["segs"]) == 1 and n["func"]["segs"][0] in closures and len(n.get("args", [])) == 1:
            c = closures[n["func"]["segs"][0]]
            ps = [p.get("name") for p in c.get("params", []) if isinstance(p, dict)]
            if len(ps) == 1 and ps[0]:
                b = c["body"]
                while isinstance(b, dict) and b.get("k") == "block" and len(b.get("stmts", [])) == 1 and not b["stmts"][0].get("semi"):
                    b = b["stmts"][0]
                return rec(_subst(b, ps[0], n["args"][0]))
        return {kk: (rec(v) if kk not in ("loc", "pat", "params") else v) for kk, v in n.items()}

    return rec(node)


def arith_helpers(facts):
    """Crate functions that compute one arithmetic operator on their two integer parameters with range checks around it
    (`fn shift_left(l: i32, r: i32) -> Option<i32>`): name -> operator.  plain_arith reads a call of one as that operator."""
    out = {}
    for f in facts.fns:
        ps = [p for p in f["params"] if p.get("name") != "self"]
        if len(ps) != 2 or not all((p.get("ty") or "").strip() in ("i32", "i64", "u32", "usize") for p in ps):
            continue
        if not re.match(r"^Option<i(32|64)>$", f["ret"].replace(" ", "")):
            continue
        ops = {n["op"] for n in walk(f["body"]) if n.get("k") == "binary" and n["op"] in ("+", "-", "*", "/", "%", "<<", ">>")}
        ops |= {_ARITH_METHODS[n["method"].split("_", 1)[1]] for n in walk(f["body"]) if n.get("k") == "mcall" and re.match(r"^(checked|wrapping)_(add|sub|mul|div|rem|shl|shr)$", n["method"])}
        if len(ops) == 1:
            out[f["name"]] = next(iter(ops))
    return out


def local_closures(fn_or_node):
    """name -> closure node for `let name = |..| ..;` bindings (plumbing helpers such as `fits`)."""
    out = {}
    for n in walk(fn_or_node):
        if n.get("k") == "let" and isinstance(n.get("init"), dict) and n["init"].get("k") == "closure" and n.get("pat", {}).get("k") == "ident":
            out[n["pat"]["name"]] = n["init"]
    return out


def inline_local_closures(body):
    """A copy of `body` in which calls of closures bound by `let name = |..| ..;` in that body are
    replaced by the closure's body with the arguments substituted (rules that read what an arm
    computes must see through a local helper)."""
    cl = local_closures(body)
    if not cl:
        return body

    def rec(n):
        if isinstance(n, list):
            return [rec(x) for x in n]
        if not isinstance(n, dict):
            return n
        if n.get("k") == "call" and n["func"].get("k") == "path" and len(n["func"]["segs"]) == 1 and n["func"]["segs"][0] in cl:
            c = cl[n["func"]["segs"][0]]
            ps = [p.get("name") for p in c.get("params", []) if isinstance(p, dict)]
            if len(ps) == len(n.get("args", [])) and all(ps):
                b = c["body"]
                while isinstance(b, dict) and b.get("k") == "block" and len(b.get("stmts", [])) == 1 and not b["stmts"][0].get("semi"):
                    b = b["stmts"][0]
                for p, a in zip(ps, n["args"]):
                    a2 = a
                    while isinstance(a2, dict) and a2.get("k") == "ref":
                        a2 = a2["e"]
                    b = _subst(b, p, a2)
                return rec(b)
        return {k: (rec(v) if k not in ("loc", "pat", "params") else v) for k, v in n.items()}

    return rec(body)
