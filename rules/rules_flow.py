"""Path rules over the generator (C01, C13, C14, C17): stack pairing, flag-knowledge typestate,
label discipline, read-modify-write guard."""
import re

from astlib import AnchorMissing, expr_text, pat_text, walk, children
from core import rule
from genmodel import (ISA, MN, BRANCHES, gen_fns, fn_paths, domain_of, is_error_exit, GEN_QUAL, mod_summaries, variant_flow, EMITTERS)
from walker import Const, EnumV, Sym, Fmt, Tup, Unknown, StructV, BinOp
import rules_asm

_cache = {}


def ev_mnemonics(facts, st, e):
    if e["kind"] not in ("asm", "sasm", "sasm_protected"):
        return None
    return domain_of(st, e["args"][0], facts, universe=facts.enum_variants("AsmMnemonic"))


def path_sig(facts, fn, st, value):
    """Stable description of a path: constraints on ExprType-typed parameters + returned variant."""
    from walker import norm_ty
    parts = []
    for p in fn["params"]:
        if norm_ty(p["ty"]) == "ExprType":
            d = domain_of(st, Sym(p["name"], "ExprType"), facts)
            if d is not None and len(d) < len(facts.enum_variants("ExprType")):
                parts.append("%s=%s" % (p["name"], "|".join(sorted(d))))
    rv = ""
    v = value
    if isinstance(v, EnumV) and v.enum == "Result" and v.payload:
        v = v.payload[0]
    if isinstance(v, EnumV):
        rv = v.variant
        if v.payload and isinstance(v.payload[0], Const):
            rv += "(%s)" % v.payload[0].v
    elif isinstance(v, Sym):
        rv = "value"
    return ",".join(parts) + ":ret=" + rv


STACK_EXCEPTIONS = [
    ("generate_assign", re.compile(r"^left=Tmp,.*:ret=Tmp$"),
     "a Tmp destination is only ever passed by generate_condition_16bits (literal ExprType::Tmp); when A is in use there, its next step (assignment to A) is rejected with 'Code too complex', so no function is emitted from such a path"),
]


def stack_exception(fname, sig):
    for f, rx, why in STACK_EXCEPTIONS:
        if f == fname and rx.match(sig):
            return why
    return None


@rule("T-STACK-PAIR", floor=12,
      text="in every generator function, on every path that returns normally, the number of PHA instructions emitted equals the number of PLA instructions (guards on acc_in_use/tmp_in_use are correlated by path-wise constant propagation; callees are balanced by the same rule; error exits are exempt)")
def t_stack_pair(facts, res, tier):
    seen = {}
    undecided = {}
    for fn in gen_fns(facts):
        if fn["name"] in ("asm", "new", "sasm", "sasm_protected"):
            continue
        n_ok = 0
        n_emit = 0
        for kind, value, st in fn_paths(facts, fn):
            if is_error_exit(value):
                continue
            ph = pl = 0
            first = None
            for e in st.events:
                m = ev_mnemonics(facts, st, e)
                if m and len(m) == 1:
                    mn = next(iter(m))
                    if mn == "PHA":
                        ph += 1
                        first = first or e
                    elif mn == "PLA":
                        pl += 1
            if ph or pl:
                n_emit += 1
            if ph != pl:
                # guards on acc_in_use / tmp_in_use cannot be correlated across a call that may change them
                mods, _calls = mod_summaries(facts)
                idx = st.events.index(first) if first in st.events else -1
                if any(e["kind"] == "call" and (mods.get(e["callee"], set()) & {"acc_in_use", "tmp_in_use"}) for e in st.events[idx + 1:]):
                    undecided[fn["name"]] = undecided.get(fn["name"], 0) + 1
                    continue
                sig = path_sig(facts, fn, st, value)
                key = "T-STACK-PAIR:%s:%s" % (fn["name"], sig)
                if key not in seen:
                    seen[key] = True
                    res.inst(key, True, {"function": fn["name"], "pha": ph, "pla": pl, "path": sig})
                    why = stack_exception(fn["name"], sig)
                    if why:
                        res.note("exception %s: %s" % (key, why))
                        continue
                    res.fail(key, facts.where(fn, first["node"]) if first else facts.where(fn),
                             "%s: a path (%s) that returns normally emits %d PHA and %d PLA: the hardware stack is left unbalanced and the function's RTS returns to a wrong address" % (fn["name"], sig, ph, pl))
            else:
                n_ok += 1
        if n_emit:
            res.inst("T-STACK-PAIR:%s" % fn["name"], True, {"function": fn["name"], "paths_with_stack_ops": n_emit})
    if undecided:
        res.note("paths not decided because a callee that may change acc_in_use/tmp_in_use runs between the PHA and the PLA guard: %s" % undecided)


# ---------------------------------------------------------------- flags typestate

# states: 'U' flags known to be Unknown ; 'K' flags consistent with the last N/Z-changing instruction ;
#         'D' an N/Z-changing instruction was emitted after the last assignment of a specific value


class EvRef:
    """Hashable reference to an event record."""
    def __init__(self, e):
        self.e = e

    def __getitem__(self, k):
        return self.e[k]


def flags_summaries(facts):
    """Context-sensitive (by the variant sets of ExprType arguments) summaries of how each generator
    function transforms the flag-knowledge state.
    States: 'U' flags is known to be Unknown; 'K' flags is consistent with the last N/Z-changing
    instruction; 'D' an N/Z-changing instruction (or opaque asm) was emitted after the last assignment
    of a specific value.  A *consumer* (a call to a predicate taking the FlagsState, i.e. flags_ok)
    reached in state D is a violation."""
    key = ("flagsumm", id(facts))
    if key in _cache:
        return _cache[key]
    from walker import norm_ty
    RS, PS, FS, variants_of = variant_flow(facts)
    allv = frozenset(facts.enum_variants("ExprType"))
    fns = {f["name"]: f for f in gen_fns(facts) if f["name"] not in ("new",)}
    eparams = {}
    for name, f in fns.items():
        ps = [p for p in f["params"] if p["name"] != "self"]
        eparams[name] = [(i, p["name"].replace("mut ", "").strip()) for i, p in enumerate(ps) if norm_ty(p["ty"]) == "ExprType"]
    paths = {}
    for name, f in fns.items():
        lst = []
        for kind, value, st in fn_paths(facts, f):
            if is_error_exit(value):
                continue
            cf = [k2 for k2 in st.cons if k2.startswith("self.current_function")]
            if any(st.cons[k2][0] is not None and set(st.cons[k2][0]) == {"None"} for k2 in cf):
                continue
            doms = {}
            for i, pn in eparams[name]:
                d = domain_of(st, Sym(pn, "ExprType"), facts, universe=allv)
                doms[pn] = frozenset(d) if d is not None else allv
            lst.append((st, doms, value))
        paths[name] = lst
    memo = {}
    deps = {}
    consumed = {}  # (site_fn, site_what, consumer_fn) -> (site EvRef|None, consumer event)
    work = []

    def describe(fname, st, e):
        if e["kind"] in ("inline", "push_code"):
            return e["kind"]
        m = ev_mnemonics(facts, st, e)
        return "|".join(sorted(m)) if m else "?"

    def lookup(k, requester):
        deps.setdefault(k, set()).add(requester)
        if k not in memo:
            memo[k] = set()
            work.append(k)
        return memo[k]

    ENTRY = ("<previous statement>", "")
    site_nodes = {}

    def compute(k):
        fname, entry, argdoms = k
        out = set()
        for st, doms, value in paths[fname]:
            ok = True
            for (i, pn), ad in zip(eparams[fname], argdoms):
                if not (doms[pn] & ad):
                    ok = False
                    break
            if not ok:
                continue
            # set of possible states, each D carrying the sites that made it dirty
            cur = {entry: (frozenset([ENTRY]) if entry == "D" else frozenset())}
            touched = False
            for e in st.events:
                kd = e["kind"]
                if kd in ("asm", "sasm", "sasm_protected"):
                    touched = True
                    m = ev_mnemonics(facts, st, e)
                    if m and all(MN[x]["kind"] in ("return", "jump") for x in m):
                        cur = {"U": frozenset()}
                        continue
                    nz = m is None or any(MN[x]["nz"] for x in m)
                    if nz and "K" in cur:
                        d = (fname, describe(fname, st, e))
                        site_nodes.setdefault(d, e)
                        del cur["K"]
                        cur["D"] = cur.get("D", frozenset()) | frozenset([d])
                elif kd in ("inline", "push_code"):
                    touched = True
                    if "K" in cur:
                        d = (fname, kd)
                        site_nodes.setdefault(d, e)
                        del cur["K"]
                        cur["D"] = cur.get("D", frozenset()) | frozenset([d])
                elif kd == "label":
                    touched = True
                    cur = {"U": frozenset()}
                elif kd == "set" and e["field"] == "flags":
                    touched = True
                    v = e["value"]
                    cur = {("U" if isinstance(v, EnumV) and v.variant == "Unknown" else "K"): frozenset()}
                elif kd == "consume":
                    # the predicate can only answer "flags describe this operand" for some operand kinds
                    a = e.get("arg")
                    vs = variants_of(a, st, fname) if a is not None else None
                    if isinstance(a, Sym):
                        for (j, qn), ad in zip(eparams[fname], argdoms):
                            if a.key == qn:
                                vs = (set(vs or allv) & ad & doms[qn])
                    if vs is not None and not (set(vs) & set(e.get("may_true", allv))):
                        continue
                    for d in cur.get("D", ()):
                        consumed.setdefault((d[0], d[1], fname), e)
                elif kd == "call" and e["callee"] in fns:
                    g = e["callee"]
                    ads = []
                    for (i, pn) in eparams[g]:
                        a = e["args"][i] if i < len(e["args"]) else None
                        vs = variants_of(a, st, fname) if a is not None else None
                        vs = frozenset(vs) if vs else allv
                        if isinstance(a, Sym):
                            for (j, qn), ad in zip(eparams[fname], argdoms):
                                if a.key == qn:
                                    vs = (vs & ad & doms[qn]) or vs
                        ads.append(vs)
                    nxt = {}
                    for s0, sites0 in cur.items():
                        outs = lookup((g, s0, tuple(ads)), k)
                        if not outs:
                            nxt[s0] = nxt.get(s0, frozenset()) | sites0
                            continue
                        for (o, osites) in outs:
                            if o == "pass":
                                nxt[s0] = nxt.get(s0, frozenset()) | sites0
                            else:
                                touched = True
                                if o == "D":
                                    ds = set()
                                    for d in osites:
                                        if d == ENTRY:
                                            ds |= sites0
                                        else:
                                            ds.add(d)
                                    nxt["D"] = nxt.get("D", frozenset()) | frozenset(ds)
                                else:
                                    nxt[o] = nxt.get(o, frozenset())
                    cur = nxt
            if not touched:
                out.add(("pass", frozenset()))
            else:
                for s1, sites1 in cur.items():
                    out.add((s1, sites1 if s1 == "D" else frozenset()))
        # merge all D entries into one (keeps the table small)
        dsites = frozenset().union(*[x[1] for x in out if x[0] == "D"]) if any(x[0] == "D" for x in out) else None
        out = {x for x in out if x[0] != "D"}
        if dsites is not None:
            out.add(("D", dsites))
        return out

    def evaluate(fname, entry, argdoms):
        k = (fname, entry, tuple(argdoms))
        lookup(k, None)
        rounds = 0
        while work and rounds < 50000:
            rounds += 1
            kk = work.pop()
            new = compute(kk)
            if new != memo[kk]:
                memo[kk] = new
                for d in deps.get(kk, ()):
                    if d is not None and d not in work:
                        work.append(d)
            else:
                memo[kk] = new
        return memo[k]

    _cache[key] = (evaluate, eparams, allv, memo, consumed, site_nodes)
    return _cache[key]


def statement_generators(facts):
    """Functions generate_statement dispatches to (directly), i.e. what one C statement runs."""
    gs = facts.fn("generate_statement", GEN_QUAL)
    out = []
    for n in walk(gs["body"]):
        if n.get("k") == "mcall" and n["recv"].get("k") == "path" and n["recv"]["segs"] == ["self"] and n["method"].startswith("generate_") and n["method"] != "generate_statement":
            if n["method"] not in out:
                out.append(n["method"])
    return out


FLAGS_EXCEPTIONS = {
    ("generate_assign", "*"): "the paths of generate_assign that load A (LDA/TXA/TYA) without assigning `flags` have an A or Tmp *destination*; such destinations are either literals passed by generate_return / generate_ternary / generate_condition_16bits (followed at once by RTS, a label or an assignment of flags) or the value of a non-lvalue left-hand side, which generate_assign rejects ('Code too complex') because the producer left acc_in_use / tmp_in_use set; the analysis cannot correlate the destination kind with those flags",
}


@rule("T-FLAGS-DIRTY", floor=20,
      text="typestate of the generator's N/Z knowledge (`flags`): a consumer of that knowledge (flags_ok, which lets a condition skip its load/compare) is never reached while `flags` still holds a specific value assigned before a later N/Z-changing instruction or opaque asm line. Propagated through every generator function with callee summaries specialised by the operand kinds passed, to a fixpoint, within one statement and from the end of one statement into the next")
def t_flags_dirty(facts, res, tier):
    evaluate, eparams, allv, memo, consumed, site_nodes = flags_summaries(facts)
    gs = "generate_statement"
    facts.fn(gs, GEN_QUAL)
    ENTRY = ("<previous statement>", "")
    outs = evaluate(gs, "K", [])
    exit_sites = set()
    for o, sites in outs:
        if o == "D":
            exit_sites |= set(sites)
    res.inst("T-FLAGS-DIRTY:statement-exit", True, {"exit_states": sorted({o for o, _ in outs}), "dirty_exit_sites": sorted("%s:%s" % d for d in exit_sites)})
    evaluate(gs, "D", [])
    next_consumers = sorted({k[2] for k in consumed if (k[0], k[1]) == ENTRY})
    res.inst("T-FLAGS-DIRTY:next-statement-consumers", True, {"consumers_reachable_with_stale_flags": next_consumers})
    # (a) consumer inside the same statement
    within = {}
    for (sfn, what, cfn), cev in consumed.items():
        if (sfn, what) == ENTRY:
            continue
        within.setdefault((sfn, cfn), set()).add(what)
    for (fname, entry, ads), outs2 in sorted(memo.items(), key=lambda kv: (kv[0][0], kv[0][1], str(kv[0][2]))):
        if entry == "K":
            res.inst("T-FLAGS-DIRTY:summary:%s:%s" % (fname, "/".join("|".join(sorted(a)) if len(a) < len(allv) else "*" for a in ads)), True,
                     {"function": fname, "exits": sorted({o for o, _ in outs2})})
    for (sfn, cfn), whats in sorted(within.items()):
        key = "T-FLAGS-DIRTY:%s->%s" % (sfn, cfn)
        res.inst(key, True, {"dirtying": sorted(whats)})
        if (sfn, cfn) in FLAGS_EXCEPTIONS or (sfn, "*") in FLAGS_EXCEPTIONS:
            res.note("exception %s: %s" % (key, FLAGS_EXCEPTIONS.get((sfn, cfn)) or FLAGS_EXCEPTIONS[(sfn, "*")]))
            continue
        node = site_nodes.get((sfn, sorted(whats)[0]))
        res.fail(key, facts.where(facts.fn(sfn, GEN_QUAL), node["node"] if node else None), "%s emits %s without updating `flags`, and %s can then consult flags_ok in the same statement: the condition may skip its load/compare and branch on those flags" % (sfn, "/".join(sorted(whats)), cfn))
    # (b) a statement ends dirty and the next statement's condition consumes
    if next_consumers:
        byfn = {}
        for d in exit_sites:
            if d == ENTRY:
                continue
            byfn.setdefault(d[0], set()).add(d[1])
        for sfn, whats in sorted(byfn.items()):
            key = "T-FLAGS-DIRTY:%s->next-statement" % sfn
            res.inst(key, True, {"dirtying": sorted(whats)})
            if (sfn, "next-statement") in FLAGS_EXCEPTIONS or (sfn, "*") in FLAGS_EXCEPTIONS:
                res.note("exception %s: %s" % (key, FLAGS_EXCEPTIONS.get((sfn, "next-statement")) or FLAGS_EXCEPTIONS[(sfn, "*")]))
                continue
            node = site_nodes.get((sfn, sorted(whats)[0]))
            res.fail(key, facts.where(facts.fn(sfn, GEN_QUAL), node["node"] if node else None), "a statement can end in %s right after %s changed N/Z while `flags` still describes an earlier value; the next statement's condition (%s) consults flags_ok before reloading" % (sfn, "/".join(sorted(whats)), ", ".join(next_consumers)))
    res.note("%d (function, entry state, operand kinds) summaries computed; %d (dirtying site, consumer) pairs" % (len(memo), len(consumed)))


@rule("T-LABEL-KILL", floor=3,
      text="defining a label forgets flag knowledge (label() assigns flags = Unknown and carry_flag_ok = false on the path that appends the label), and after a JSR or an inline expansion generate_function_call assigns flags = Unknown before any normal return")
def t_label_kill(facts, res, tier):
    fn = facts.fn("label", GEN_QUAL)
    n = 0
    for kind, value, st in fn_paths(facts, fn):
        appended = any(e["kind"] == "call" for e in st.events) or "append_label" in " ".join(expr_text(e["node"]) for e in st.events if "node" in e)
        sets = {e["field"]: e["value"] for e in st.events if e["kind"] == "set"}
        cf = [k for k in st.cons if k.startswith("self.current_function")]
        emitting = not any(st.cons[k][0] is not None and set(st.cons[k][0]) == {"None"} for k in cf)
        if not emitting:
            continue
        n += 1
        key = "T-LABEL-KILL:label"
        res.inst(key, True, {"sets": {k: repr(v) for k, v in sets.items()}})
        f = sets.get("flags")
        c = sets.get("carry_flag_ok")
        if not (isinstance(f, EnumV) and f.variant == "Unknown"):
            res.fail(key, facts.where(fn), "label() does not reset `flags` to Unknown: code after a join point would trust flags of only one predecessor")
        if not (isinstance(c, Const) and c.v is False):
            res.fail(key + ":carry", facts.where(fn), "label() does not clear carry_flag_ok")
    if not n:
        raise AnchorMissing("label(): emitting path not found")
    # the label must actually be appended on that path
    t = expr_text(fn["body"])
    res.inst("T-LABEL-KILL:label:append")
    if "append_label(" not in t:
        res.fail("T-LABEL-KILL:label:append", facts.where(fn), "label() does not append the label")
    gfc = facts.fn("generate_function_call", GEN_QUAL)
    checked = 0
    for kind, value, st in fn_paths(facts, gfc):
        if is_error_exit(value):
            continue
        idx = None
        for i, e in enumerate(st.events):
            m = ev_mnemonics(facts, st, e)
            if (m and "JSR" in m) or e["kind"] == "push_code":
                idx = i
        if idx is None:
            continue
        checked += 1
        after = [e for e in st.events[idx + 1:] if e["kind"] == "set" and e["field"] == "flags"]
        key = "T-LABEL-KILL:call"
        if not after or not (isinstance(after[0]["value"], EnumV) and after[0]["value"].variant == "Unknown"):
            res.inst(key)
            res.fail(key, facts.where(gfc, st.events[idx]["node"]), "after a call (JSR / inline expansion) generate_function_call can return without resetting `flags`")
            break
    res.inst("T-LABEL-KILL:call", True, {"paths_checked": checked})
    if not checked:
        raise AnchorMissing("generate_function_call: no calling path found")


# ---------------------------------------------------------------- labels


@rule("T-LABEL-UNIQUE", floor=10,
      text="every local label is formatted from a per-kind counter that is advanced exactly once for each use on the same straight-line path, and all sites of one label family use the same order (increment-then-format or format-then-increment); mixing the two orders for one family is what produces a duplicate label")
def t_label_unique(facts, res, tier):
    families = {}
    def is_fmt_let(s):
        return s.get("k") == "let" and s.get("init", {}).get("k") == "macro" and s["init"]["name"] == "format" and s["init"].get("args") and s["init"]["args"][0].get("k") == "lit"
    def is_inc(s, ctr):
        return s.get("k") == "assignop" and s["op"] == "+" and expr_text(s["l"]) == ctr
    for fn in gen_fns(facts):
        # visit blocks with the chain of (block, index) ancestors, so that an increment made in an
        # enclosing block before entering the nested one is seen
        def visit(node, chain):
            if node.get("k") == "block":
                for i, s in enumerate(node["stmts"]):
                    if is_fmt_let(s):
                        a = s["init"]["args"]
                        tmpl = a[0]["v"]
                        if str(tmpl).startswith(".") and len(a) >= 2 and "self." in expr_text(a[1]) and not re.match(r"^self\.\w+$", expr_text(a[1]).replace(" ", "")):
                            key = "T-LABEL-UNIQUE:%s:%s:computed-number" % (fn["name"], re.sub(r"\{.*\}", "", str(tmpl)))
                            res.inst(key, True, {"label": tmpl, "number": expr_text(a[1])[:40]})
                            res.fail(key, facts.where(fn, s), "%s numbers the label `%s` with `%s`, not with the counter itself: the number is used without being taken (the counter may not be advanced on this path), and the next label of the family gets it again" % (fn["name"], tmpl, expr_text(a[1])[:40]))
                        if str(tmpl).startswith(".") and len(a) >= 2 and expr_text(a[1]).startswith("self."):
                            ctr = expr_text(a[1])
                            fam = re.sub(r"\{.*\}", "", tmpl)
                            order = None
                            # look backwards through this block, then the enclosing ones
                            found = False
                            for blk, idx in [(node, i)] + chain[::-1]:
                                for j in range(idx - 1, -1, -1):
                                    sj = blk["stmts"][j]
                                    if is_fmt_let(sj) and expr_text(sj["init"]["args"][0]) == expr_text(a[0]) and blk is node:
                                        found = True  # an earlier label of the same family uses the number first
                                        break
                                    if is_inc(sj, ctr):
                                        order = "inc-then-format"
                                        found = True
                                        break
                                if found:
                                    break
                            if order is None:
                                for j in range(i + 1, len(node["stmts"])):
                                    sj = node["stmts"][j]
                                    if is_fmt_let(sj) and expr_text(sj["init"]["args"][0]) == expr_text(a[0]):
                                        break
                                    if is_inc(sj, ctr):
                                        order = "format-then-inc"
                                        break
                            families.setdefault((fam, ctr), []).append((fn, s, order))
                    visit(s, chain + [(node, i)])
                return
            for c in children(node):
                visit(c, chain)
        visit(fn["body"], [])
    if len(families) < 8:
        raise AnchorMissing("label families not found (%d)" % len(families))
    byfam = {}
    for (fam, ctr), sites in families.items():
        byfam.setdefault(fam, []).append((ctr, sites))
    for fam, lst in sorted(byfam.items()):
        key = "T-LABEL-UNIQUE:%s" % fam
        ctrs = {c for c, _ in lst}
        sites = [x for _, ss in lst for x in ss]
        orders = {o for _, _, o in sites}
        res.inst(key, True, {"family": fam, "counter": sorted(ctrs), "sites": len(sites), "orders": sorted(str(o) for o in orders)})
        if len(ctrs) != 1:
            res.fail(key, facts.where(sites[0][0], sites[0][1]), "labels `%sN` are numbered from different counters: %s" % (fam, sorted(ctrs)))
        if None in orders:
            bad = [x for x in sites if x[2] is None][0]
            res.fail(key, facts.where(bad[0], bad[1]), "label `%sN` in %s is formatted without advancing its counter in the same block: two uses can get the same number" % (fam, bad[0]["name"]))
        elif len(orders) > 1:
            bad = sites[0]
            res.fail(key, facts.where(bad[0], bad[1]), "label family `%sN` is numbered increment-then-format at some sites and format-then-increment at others: consecutive uses can collide" % fam)
    # families sharing a counter must agree on the order too (they are defined in pairs, e.g. .ifend/.else)
    byctr = {}
    for (fam, ctr), sites in families.items():
        for fn, s, o in sites:
            byctr.setdefault(ctr, set()).add((fam, o))
    for ctr, fo in sorted(byctr.items()):
        key = "T-LABEL-UNIQUE:counter:%s" % ctr
        orders = {}
        for fam, o in fo:
            orders.setdefault(o, set()).add(fam)
        res.inst(key, True, {"counter": ctr, "orders": {str(k): sorted(v) for k, v in orders.items()}})
        if len(orders) > 1:
            # different families may legitimately use different orders on the same counter as long as names differ
            shared = set.intersection(*orders.values()) if len(orders) > 1 else set()
            if shared:
                res.fail(key, "src/generate", "counter %s: family %s is used with both orders" % (ctr, sorted(shared)))


@rule("T-LABEL-DEF", floor=10,
      text="a local label that a function formats and passes to a branch, a jump or generate_condition* is defined with self.label(..) exactly once on every normal path of that function (exceptions, each with its reason: loop labels handed to break/continue through self.loops, the do-while continue label defined iff a continue was seen, and labels of conditions that were folded at compile time)")
def t_label_def(facts, res, tier):
    n = 0
    for fn in gen_fns(facts):
        if fn["name"] in ("asm", "new", "label"):
            continue
        # label locals: let X = format!(".name{}", ..)
        locs = {}
        for s in walk(fn["body"]):
            if s.get("k") == "let" and s["pat"].get("k") == "ident" and s.get("init", {}).get("k") == "macro" and s["init"]["name"] == "format" and s["init"].get("args") and s["init"]["args"][0].get("k") == "lit" and str(s["init"]["args"][0]["v"]).startswith("."):
                locs[s["pat"]["name"]] = s["init"]["args"][0]["v"]
        if not locs:
            continue
        per_label = {}
        for kind, value, st in fn_paths(facts, fn):
            if is_error_exit(value):
                continue
            cf = [k for k in st.cons if k.startswith("self.current_function")]
            if any(st.cons[k][0] is not None and set(st.cons[k][0]) == {"None"} for k in cf):
                continue
            used = {}
            defined = {}
            folded = False
            for e in st.events:
                if e["kind"] == "label":
                    a = e["args"][0]
                    if isinstance(a, Fmt):
                        defined[a.template] = defined.get(a.template, 0) + 1
                elif e["kind"] == "asm" and len(e["args"]) > 1:
                    a = e["args"][1]
                    if isinstance(a, EnumV) and a.variant == "Label" and a.payload and isinstance(a.payload[0], Fmt):
                        used[a.payload[0].template] = e
                elif e["kind"] == "call":
                    for a in e["args"]:
                        if isinstance(a, Fmt) and a.template.startswith("."):
                            used[a.template] = e
            # a condition folded at compile time emits no branch: generate_condition(.., true) returned Some(_)
            for k2, (allowed, excl) in st.cons.items():
                if k2.startswith("ret") and (":generate_condition" in k2 or ":generate_simple_condition" in k2) and allowed is not None and set(allowed) == {"Some"}:
                    folded = True
            for tmpl, e in used.items():
                rec = per_label.setdefault(tmpl, {"ok": 0, "bad": [], "folded": 0})
                c = defined.get(tmpl, 0)
                if c == 1:
                    rec["ok"] += 1
                elif folded:
                    rec["folded"] += 1
                else:
                    rec["bad"].append((c, e, st))
        for tmpl, rec in sorted(per_label.items()):
            n += 1
            key = "T-LABEL-DEF:%s:%s" % (fn["name"], tmpl)
            res.inst(key, True, {"function": fn["name"], "label": tmpl, "paths_defining_once": rec["ok"], "paths_folded": rec["folded"], "paths_violating": len(rec["bad"])})
            if rec["bad"]:
                exc = LABEL_DEF_EXCEPTIONS.get((fn["name"], tmpl))
                if exc:
                    res.note("exception %s: %s" % (key, exc))
                    continue
                c, e, st = rec["bad"][0]
                res.fail(key, facts.where(fn, e["node"]), "%s uses label `%s` on a path that defines it %d times" % (fn["name"], tmpl, c))
    res.note("%d (function, label) pairs" % n)


LABEL_DEF_EXCEPTIONS = {
    ("generate_do_while", ".dowhilecondition{}"): "pushed on self.loops as the continue target; defined iff a continue statement set the flag, and only continue jumps to it",
    ("generate_for_loop", ".forupdate{}"): "never used by this function itself: it is the continue target handed to the body through self.loops and always defined",
}


# ---------------------------------------------------------------- C17 read-modify-write guard


@rule("T-RMW-GUARD", configs=("atari2600",), floor=4,
      text="(atari2600 build) no emission site can apply a read-modify-write instruction (INC DEC ASL LSR ROL ROR) to a memory operand whose variable may be in split-port cartridge RAM: the site must lie on a path where the operand variable's `memory` was tested and found to be neither Superchip nor MemoryOnChip; the only other RMW targets allowed are the accumulator and the zero-page DUMMY location")
def t_rmw_guard(facts, res, tier):
    import json, os
    from astlib import VERIF
    with open(os.path.join(VERIF, "ref", "cart_ports.json")) as fh:
        ports = json.load(fh)
    rmw = set(ports["rmw_mnemonics"])
    seen = {}
    for s in rules_asm.asm_sites(facts):
        if not s["mn"] or not (s["mn"] & rmw):
            continue
        if s["kind"] != "asm":
            continue  # sasm: accumulator / implied form
        op = s["op"] or set()
        memop = op & {"Absolute", "AbsoluteX", "AbsoluteY"}
        if not memop:
            continue
        st = s["state"]
        opv = s["opval"]
        mns = sorted(s["mn"] & rmw)
        key = "T-RMW-GUARD:%s:%s" % (s["fn"]["name"], "|".join(mns))
        guarded = False
        why = ""
        if isinstance(opv, EnumV):
            if opv.payload and isinstance(opv.payload[0], Const) and opv.payload[0].v == "DUMMY":
                guarded = True
                why = "DUMMY (zero page, see T-DUMMY-ZP)"
        elif isinstance(opv, Sym):
            # find the memory test of this operand's variable:  <..>.get_variable(<opkey>.0).memory
            for k2, (allowed, excl) in st.cons.items():
                if k2.endswith(".memory") and ("(%s.0)" % opv.key) in k2:
                    dom = set(allowed) if allowed is not None else set(facts.enum_variants("VariableMemory")) - set(excl)
                    if not (dom & {"Superchip", "MemoryOnChip"}):
                        guarded = True
                        why = "memory in %s" % sorted(dom)
        rec = seen.setdefault(key, {"ok": 0, "bad": []})
        if guarded:
            rec["ok"] += 1
        else:
            rec["bad"].append(s)
    if not seen:
        raise AnchorMissing("no read-modify-write emission sites found")
    for key, rec in sorted(seen.items()):
        res.inst(key, True, {"guarded_paths": rec["ok"], "unguarded_paths": len(rec["bad"])})
        if rec["bad"]:
            s = rec["bad"][0]
            res.fail(key, facts.where(s["fn"], s["node"]), "%s can emit %s on a memory operand without having excluded split-port cartridge RAM (Superchip / MemoryOnChip): a read-modify-write instruction reads and writes the same address, which such RAM does not support" % (s["fn"]["name"], key.split(":")[-1]))


# ---------------------------------------------------------------- what `flags` claims must be what N/Z hold


def _claim_base(v):
    """FlagsState::Absolute(K.0, K.1, K.2) / AbsoluteX(K.0) -> ('K', variant) when built from the fields of one operand."""
    if not (isinstance(v, EnumV) and v.enum == "FlagsState" and v.variant in ("Absolute", "AbsoluteX", "AbsoluteY") and v.payload):
        return None
    a = v.payload[0]
    if isinstance(a, Sym) and a.key.endswith(".0"):
        return a.key[:-2], v.variant
    return None


def _sim16(seq, wide):
    """Exhaustively run a short sequence of INC/DEC/LDA/branch/label on one variable.
    seq items: ('INC'|'DEC'|'LDA', part) part in {'lo','hi'}; ('B..', label); ('label', name).
    Returns (z_ok, n_ok, witness_z, witness_n) over all values of the variable."""
    top = 65536 if wide else 256
    z_ok = n_ok = True
    wz = wn = None
    labels = {}
    for i, it in enumerate(seq):
        if it[0] == "label":
            labels[it[1]] = i
    for v0 in range(top):
        lo, hi = v0 & 255, v0 >> 8
        N = Z = None
        pc = 0
        steps = 0
        while pc < len(seq) and steps < 100:
            steps += 1
            op = seq[pc]
            if op[0] in ("INC", "DEC"):
                d = 1 if op[0] == "INC" else -1
                if op[1] == "lo":
                    lo = (lo + d) & 255
                    r = lo
                else:
                    hi = (hi + d) & 255
                    r = hi
                N, Z = r >> 7, int(r == 0)
            elif op[0] == "LDA":
                r = lo if op[1] == "lo" else hi
                N, Z = r >> 7, int(r == 0)
            elif op[0] in ("BNE", "BEQ", "BMI", "BPL"):
                if Z is None:
                    return None
                taken = {"BNE": Z == 0, "BEQ": Z == 1, "BMI": N == 1, "BPL": N == 0}[op[0]]
                if taken:
                    if op[1] not in labels or labels[op[1]] < pc:
                        return None
                    pc = labels[op[1]]
            pc += 1
        v1 = (hi << 8 | lo) if wide else lo
        if Z is None:
            return None
        if Z != int(v1 == 0) and z_ok:
            z_ok, wz = False, (v0, v1)
        if N != (v1 >> (15 if wide else 7)) and n_ok:
            n_ok, wn = False, (v0, v1)
    return z_ok, n_ok, wz, wn


@rule("T-FLAGS-VALUE", floor=6,
      text="wherever a generator function assigns `flags` a value naming a memory operand, the N/Z flags really describe that operand at that point: (i) structurally, the last N/Z-changing instruction emitted on the path is a load/INC/DEC of that operand, or it set A and A was then stored to the operand; (ii) for a 16-bit operand updated by an INC/DEC idiom with skip branches, the emitted sequence is evaluated for all 65536 values and Z must equal (value == 0) and N its sign bit")
def t_flags_value(facts, res, tier):
    seen = set()
    for fn in gen_fns(facts):
        if fn["name"] in ("new", "asm"):
            continue
        for kind, value, st in fn_paths(facts, fn):
            if is_error_exit(value):
                continue
            evs = st.events
            for i, e in enumerate(evs):
                if e["kind"] != "set" or e["field"] != "flags":
                    continue
                cb = _claim_base(e["value"])
                if cb is None:
                    continue
                base, variant = cb
                # emissions of this function since its start (or since the last call into another generator function)
                start = 0
                for j in range(i - 1, -1, -1):
                    if evs[j]["kind"] == "call":
                        start = j + 1
                        break
                window = evs[start:i]
                # width of the claim
                wide = False
                if variant == "Absolute" and len(e["value"].payload) > 1:
                    eb = e["value"].payload[1]
                    d = domain_of(st, eb, facts, universe=[True, False])
                    wide = d is not None and d == {False}
                    maybe_wide = d is None or False in d
                else:
                    maybe_wide = False
                    for k2, (allowed, excl) in st.cons.items():
                        if k2.endswith(".var_type") and ("(%s.0)" % base) in k2 and allowed is not None:
                            if set(allowed) <= {"ShortPtr", "CharPtrPtr", "Short"}:
                                wide = True
                            elif set(allowed) & {"ShortPtr", "CharPtrPtr", "Short"}:
                                maybe_wide = True
                # abstract pass: what do N/Z describe?
                desc = None      # ('mem', part) of the claimed operand | 'A' | None
                a_eq = set()     # parts of the claimed operand A is known to equal
                seq = []
                simulable = True
                for w in window:
                    if w["kind"] == "label":
                        a0 = w["args"][0]
                        seq.append(("label", a0.template if isinstance(a0, Fmt) else repr(a0)))
                        continue
                    if w["kind"] not in ("asm", "sasm", "sasm_protected"):
                        continue
                    m = ev_mnemonics(facts, st, w)
                    if not m or len(m) != 1:
                        desc, simulable = None, False
                        continue
                    mn = next(iter(m))
                    opv = w["args"][1] if w["kind"] == "asm" and len(w["args"]) > 1 else None
                    hb = w["args"][3] if w["kind"] == "asm" and len(w["args"]) > 3 else Const(False)
                    same = isinstance(opv, Sym) and opv.key == base
                    part = "hi" if (isinstance(hb, Const) and hb.v is True) else "lo"
                    if MN[mn]["kind"] == "branch":
                        lab = opv.payload[0] if isinstance(opv, EnumV) and opv.payload else None
                        seq.append((mn, lab.template if isinstance(lab, Fmt) else repr(lab)))
                        continue
                    if mn in ("INC", "DEC") and same:
                        desc = ("mem", part)
                        a_eq.discard(part)
                        seq.append((mn, part))
                    elif mn == "LDA" and same:
                        desc = "A"
                        a_eq = {part}
                        seq.append((mn, part))
                    elif mn == "LDA":
                        desc, a_eq, simulable = "A", set(), False
                    elif mn in ("STA",) and same:
                        a_eq.add(part)
                        simulable = False
                    elif MN[mn]["nz"]:
                        simulable = False
                        if "A" in MN[mn]["writes_reg"]:
                            desc, a_eq = "A", set()
                        else:
                            desc = None
                    elif mn in ("STA", "STX", "STY"):
                        simulable = False
                key = "T-FLAGS-VALUE:%s:%s:%s" % (fn["name"], variant, "+".join("%s.%s" % (x[0], x[1]) for x in seq if x[0] in ("INC", "DEC", "LDA")) or ("store" if desc is not None else "store-only"))
                if key in seen:
                    continue
                seen.add(key)
                supported = desc == ("mem", "lo") or (desc == "A" and "lo" in a_eq) or (desc == ("mem", "hi") and wide)
                res.inst(key, True, {"function": fn["name"], "claims": variant, "wide": wide, "nz_describe": repr(desc), "a_equals": sorted(a_eq)})
                if wide and simulable and any(x[0] in ("INC", "DEC") for x in seq):
                    r = _sim16(seq, True)
                    if r is None:
                        res.fail(key, facts.where(fn, e["node"]), "%s: cannot evaluate the update sequence %s" % (fn["name"], seq))
                        continue
                    z_ok, n_ok, wz, wn = r
                    if not z_ok:
                        res.fail(key + ":Z", facts.where(fn, e["node"]), "%s records that the flags describe the 16-bit operand after %s, but Z is wrong: for value %d the result is %d and Z says %s" % (
                            fn["name"], [x for x in seq if x[0] != "label"], wz[0], wz[1], "zero" if wz[1] != 0 else "non-zero"))
                    if not n_ok:
                        res.fail(key + ":N", facts.where(fn, e["node"]), "%s records that the flags describe the 16-bit operand after %s, but N is not its sign: value %d becomes %d and N shows the sign of a single byte; a following `< 0` / `>= 0` test branches on it" % (
                            fn["name"], [x for x in seq if x[0] != "label"], wn[0], wn[1]))
                    continue
                if desc is None and "lo" in a_eq:
                    # the claim rests on a store of the accumulator alone: N/Z follow the value into the operand only if they
                    # were those of the accumulator - after a call, a PLA or a join they are not, and nothing in this window set them
                    flags_were_a = any(k2.startswith("self.flags@") and allowed is not None and set(allowed) == {"A"} for k2, (allowed, excl) in st.cons.items())
                    if not flags_were_a:
                        res.fail(key + ":store-needs-A", facts.where(fn, e["node"]), "%s stores the accumulator to `%s` and records that the flags describe it, on a path where nothing says the flags were those of the accumulator: `x = f(); if (x)` then branches on whatever flags the callee left (JSR f / STA x / BEQ)" % (fn["name"], base))
                    continue
                if not supported and not maybe_wide:
                    res.fail(key, facts.where(fn, e["node"]), "%s records that the flags describe %s operand `%s`, but the last N/Z-changing instruction emitted on this path does not load, increment, decrement or store that operand (N/Z describe %s)" % (
                        fn["name"], variant, base, desc))


@rule("T-CONTINUE-FLAG", floor=3,
      text="the protocol that decides whether a do-while emits its continue label is closed: every jump to the current continue label (generate_continue, the `if (c) continue;` shortcut) marks the innermost loops entry, and every construct that pushes an entry *inheriting* the enclosing loop's continue label (switch) hands that mark to the enclosing entry when it pops - otherwise `continue` inside a switch inside a do-while jumps to a label that is never defined")
def t_continue_flag(facts, res, tier):
    # (1) jump sites
    for fname in ("generate_continue", "generate_if"):
        fn = facts.fn(fname, GEN_QUAL)
        t = expr_text(fn["body"]).replace(" ", "")
        key = "T-CONTINUE-FLAG:mark:%s" % fname
        res.inst(key)
        uses = re.search(r"Some\(\((\w+),_,_\)\)=>", t) is not None
        marks = "self.loops.last_mut().unwrap().2=true" in t
        if uses and not marks:
            res.fail(key, facts.where(fn), "%s jumps to the continue label without marking the loops entry" % fname)
    # (2) inheriting pushes
    for fn in gen_fns(facts):
        pushes = [n for n in walk(fn["body"]) if n.get("k") == "mcall" and n["method"] == "push" and expr_text(n["recv"]) == "self.loops"]
        def inherits_label(n):
            if not (n["args"] and n["args"][0].get("k") == "tuple" and n["args"][0]["elems"]):
                return False
            e0 = expr_text(n["args"][0]["elems"][0])
            if re.match(r"^\w+\.0(\.clone\(\))?$", e0):
                return True
            m0 = re.match(r"^(\w+)(\.clone\(\))?$", e0)
            if m0:
                # a local computed from the loop stack's continue label
                for l2 in walk(fn["body"]):
                    if l2.get("k") == "let" and l2.get("init") is not None and m0.group(1) in pat_text(l2["pat"]):
                        it = expr_text(l2["init"]).replace(" ", "")
                        if "self.loops" in it and ".0" in it:
                            return True
            return False
        inherits = [n for n in pushes if inherits_label(n)]
        if not inherits:
            continue
        key = "T-CONTINUE-FLAG:propagate:%s" % fn["name"]
        res.inst(key, True, {"function": fn["name"], "inheriting_pushes": len(inherits)})
        t = expr_text(fn["body"]).replace(" ", "")
        # accepted shapes: the popped entry's flag is read and the (new) last entry is marked
        popped = re.search(r"let(\w+)=self\.loops\.pop\(\)", t)
        ok = False
        if popped:
            v = popped.group(1)
            if re.search(r"%s[^;]*\.2|Some\(\(_,_,true\)\)=%s|Some\(\(_,_,(\w+)\)\)=%s" % (v, v, v), t) and "last_mut()" in t and ".2=true" in t:
                ok = True
        if re.search(r"ifletSome\(\(_,_,true\)\)=self\.loops\.pop\(\)", t) and ".2=true" in t:
            ok = True
        if not ok:
            res.fail(key, facts.where(fn, inherits[0]), "%s pushes a loops entry that inherits the enclosing continue label but drops the entry's `continue seen` mark when it pops: a `continue` inside it leaves the enclosing do-while unaware and its `.dowhilecondition` label is never emitted" % fn["name"])
    # (2b) the mark is only ever raised: an assignment of anything but the literal `true` can clear a mark that an
    # earlier `continue` of the same loop has set
    nflag = 0
    for fn in gen_fns(facts):
        for n in walk(fn["body"]):
            if n.get("k") in ("assign", "assignop") and expr_text(n["l"]).replace(" ", "").endswith(".2"):
                lt = expr_text(n["l"]).replace(" ", "")
                if "loops" not in lt and not re.match(r"^\w+\.2$", lt):
                    continue
                if re.match(r"^\w+\.2$", lt):
                    # a binder of an entry of the loop stack?
                    bt = expr_text(fn["body"]).replace(" ", "")
                    v = lt.split(".")[0]
                    if not re.search(r"Some\(%s\)=self\.loops\.last_mut\(\)|%s=self\.loops\.last_mut\(\)" % (v, v), bt):
                        continue
                nflag += 1
                key = "T-CONTINUE-FLAG:raise-only:%s" % fn["name"]
                res.inst(key, True, {"assignment": expr_text(n)[:60]})
                rt = expr_text(n["r"]).replace(" ", "")
                if n.get("k") == "assign" and rt != "true":
                    res.fail(key, facts.where(fn, n), "%s assigns the loop's `continue seen` mark a computed value (`%s`): when that value is false a mark set by an earlier "
                             "`continue` of the same loop is cleared and the do-while's continue label is not emitted although a jump to it exists" % (fn["name"], expr_text(n)[:60]))
    # (3) the do-while defines the label exactly when marked
    dw = facts.fn("generate_do_while", GEN_QUAL)
    key = "T-CONTINUE-FLAG:define:generate_do_while"
    res.inst(key)
    t = expr_text(dw["body"]).replace(" ", "")
    if not re.search(r"ifself\.loops\.last\(\)\.unwrap\(\)\.2\{self\.label\(dowhilecondition_label\)", t):
        res.fail(key, facts.where(dw), "generate_do_while does not define its continue label when (and only when) a continue was seen")


@rule("T-LOOP-EXIT-SIBLINGS", floor=2,
      text="the `if (c) break;` / `if (c) continue;` shortcuts of generate_if make the same validity checks as generate_break / generate_continue before branching to a loop label: no enclosing construct -> error, and for continue an empty continue label (switch outside any loop) -> error; otherwise a branch to the empty label is emitted and the branch checker panics")
def t_loop_exit_siblings(facts, res, tier):
    gi = facts.fn("generate_if", GEN_QUAL)
    gc = facts.fn("generate_continue", GEN_QUAL)
    gb = facts.fn("generate_break", GEN_QUAL)
    def checks(node):
        t = expr_text(node).replace(" ", "")
        return {"none": "None=>" in t and "returnErr" in t.split("None=>", 1)[1][:200] if "None=>" in t else False,
                "empty": ".is_empty()" in t and "returnErr" in t}
    ref_c = checks(gc["body"])
    ref_b = checks(gb["body"])
    arms = {}
    for m in walk(gi["body"]):
        if m.get("k") == "match":
            for arm in m["arms"]:
                pt = pat_text(arm["pat"])
                if pt in ("Statement::Break", "Statement::Continue"):
                    arms[pt] = arm["body"]
    if set(arms) != {"Statement::Break", "Statement::Continue"}:
        raise AnchorMissing("generate_if: break/continue shortcut arms not found")
    for pt, ref, sib in (("Statement::Break", ref_b, "generate_break"), ("Statement::Continue", ref_c, "generate_continue")):
        got = checks(arms[pt])
        key = "T-LOOP-EXIT-SIBLINGS:%s" % pt.split("::")[1]
        res.inst(key, True, {"shortcut": got, sib: ref})
        # the other direction: what the shortcut rejects, the statement itself rejects too; and the empty continue label is a value
        # generate_switch really pushes, so both readers of the continue label have to refuse it
        sw = facts.fn("generate_switch", GEN_QUAL)
        pushes_empty = any(x.get("k") == "mcall" and x["method"] == "push" and "loops" in expr_text(x["recv"]) and '"".to_string()' in expr_text(x).replace(" ", "") for x in walk(sw["body"]))
        sibfn = gb if sib == "generate_break" else gc
        for what in ("none", "empty"):
            need = got[what] or (what == "empty" and pt == "Statement::Continue" and pushes_empty)
            if need and not ref[what]:
                res.fail(key + ":" + sib, facts.where(sibfn), "%s does not reject %s%s: it emits a jump to a label that does not exist (`JMP` with an empty operand)" % (
                    sib, "a missing enclosing loop" if what == "none" else "the empty continue label generate_switch pushes for a switch outside any loop",
                    ", which the `if (c) ..;` shortcut of generate_if does" if got[what] else ""))
        for what in ("none", "empty"):
            if ref[what] and not got[what]:
                res.fail(key, facts.where(gi, arms[pt]), "the `if (c) %s;` shortcut in generate_if does not reject %s, which %s does: `if (c) %s;` %s emits a branch to a label that does not exist (the branch checker then panics)" % (
                    pt.split("::")[1].lower(), "a missing enclosing loop" if what == "none" else "an empty continue label", sib, pt.split("::")[1].lower(),
                    "outside any loop" if what == "none" else "inside a switch that is not inside a loop"))


# ----------------------------------------------------------------------------- C01 / C15 (round 20: a claim that N/Z describe A needs an instruction that made it so)


FLAGS_A_EXCEPTIONS = {
    ("generate_assign", "nothing-emitted"): "the A-destination arm of generate_assign with a right-hand side that is already in A (a call result): the same family as "
        "FLAGS_EXCEPTIONS[generate_assign] - an A destination is only passed by generate_return (RTS follows), generate_ternary (a label follows, which resets the "
        "flags) and the high-byte load of generate_condition_16bits (whose operand is never the accumulator); no input was found that reaches a consumer",
    ("generate_condition_ex", "other"): "`CMP #0` with the accumulator on the left: N/Z of A - 0 are those of A.  Premise checked on every run: the assignment "
        "follows `asm(CMP, right, ..)` in the else-branch of `*v != 0` under `matches!(left, ExprType::A(_))`",
}


def _flags_a_premise_cmp0(facts):
    """the only `flags = A` of generate_condition_ex that follows a CMP is under `*v != 0` (else) and `matches!(left, ExprType::A(_))`"""
    fn = facts.fn("generate_condition_ex", GEN_QUAL)
    from astlib import walk as _walk, expr_text as _et
    n_ok = n_all = 0
    def stmts_of(b):
        return b.get("stmts", []) if isinstance(b, dict) and b.get("k") == "block" else []
    for n in _walk(fn["body"]):
        if n.get("k") != "if" or "else" not in n:
            continue
        if not re.search(r"\bv!=0\b", _et(n["cond"])):
            continue
        for inner in _walk(n["else"]):
            if inner.get("k") != "if":
                continue
            ss = stmts_of(inner["then"])
            txt = [_et(x) for x in ss]
            if any(t.endswith("flags=FlagsState::A") or "flags=FlagsState::A" in t for t in txt):
                n_all += 1
                if "matches!(left,ExprType::A(_))" in _et(inner["cond"]) and len(txt) >= 2 and txt[0].startswith("self.asm(CMP,right"):
                    n_ok += 1
    # every CMP-then-claim in the function must be one of those
    return n_all >= 1 and n_ok == n_all


@rule("T-FLAGS-A-CLAIM", floor=3,
      text="wherever a generator function assigns `flags = FlagsState::A`, N/Z really describe the accumulator: on every path of that function the "
           "last N/Z-changing instruction it emitted itself before the assignment (since its start, or since the last call into another generator "
           "function) wrote A - a path that reaches the assignment having emitted none (an operation elided as a no-op: `| 0`, `+ 0`, `& 0xff`) "
           "hands the next condition whatever the producer of A left in the flags (`JSR f / BEQ`)")
def t_flags_a_claim(facts, res, tier):
    seen = {}
    for fn in gen_fns(facts):
        if fn["name"] in ("new", "asm"):
            continue
        for kind, value, st in fn_paths(facts, fn):
            if is_error_exit(value):
                continue
            evs = st.events
            for i, e in enumerate(evs):
                if e["kind"] != "set" or e["field"] != "flags":
                    continue
                v = e["value"]
                if not (isinstance(v, EnumV) and v.enum == "FlagsState" and v.variant == "A"):
                    continue
                start, after_call = 0, None
                for j in range(i - 1, -1, -1):
                    if evs[j]["kind"] == "call":
                        start, after_call = j + 1, evs[j].get("fn") or evs[j].get("name")
                        break
                desc = None   # 'A' | 'other' | None (nothing emitted)
                unknown = False
                for w in evs[start:i]:
                    if w["kind"] not in ("asm", "sasm", "sasm_protected"):
                        continue
                    m = ev_mnemonics(facts, st, w)
                    if not m:
                        unknown = True
                        continue
                    nz = {MN[x]["nz"] for x in m}
                    wa = {"A" in MN[x]["writes_reg"] for x in m}
                    if nz == {False}:
                        continue
                    if nz == {True} and wa == {True}:
                        desc, unknown = "A", False
                    elif nz == {True} and wa == {False}:
                        desc, unknown = "other", False
                    else:
                        unknown = True
                where = facts.where(fn, e["node"])
                verdict = "A" if desc == "A" and not unknown else ("unknown" if unknown else (desc or ("after-call" if after_call else "nothing-emitted")))
                key = "T-FLAGS-A-CLAIM:%s:%s" % (fn["name"], verdict)
                ent = seen.setdefault((fn["name"], str(where)), {"where": where, "verdicts": set(), "fn": fn, "node": e["node"]})
                ent["verdicts"].add(verdict)
    # stable keys: per function, numbered in source order of the assignment
    per_fn = {}
    for (fname, w), ent in seen.items():
        per_fn.setdefault(fname, []).append((w, ent))
    for fname, lst in sorted(per_fn.items()):
        for idx, (w, ent) in enumerate(sorted(lst, key=lambda x: (x[0].rsplit(":", 1)[0], int(x[0].rsplit(":", 1)[1]))), 1):
            vs = ent["verdicts"]
            key = "T-FLAGS-A-CLAIM:%s:%d" % (fname, idx)
            res.inst(key, True, {"function": fname, "where": ent["where"], "paths": sorted(vs)})
            bad = sorted(vs - {"A", "after-call"})
            for b in bad:
                k2 = "%s:%s" % (key, b)
                if (fname, b) == ("generate_condition_ex", "other") and not _flags_a_premise_cmp0(facts):
                    res.fail(k2 + ":premise", ent["where"], "generate_condition_ex claims the flags of A after an instruction that does not write A, and the `CMP #0` premise of the exception does not hold")
                    continue
                if (fname, b) in FLAGS_A_EXCEPTIONS:
                    res.note("exception %s: %s" % (k2, FLAGS_A_EXCEPTIONS[(fname, b)]))
                    continue
                res.fail(k2, ent["where"], "%s assigns `flags = FlagsState::A` on a path where %s: the next condition skips its compare and branches on flags that do not describe A" % (
                    fname, {"nothing-emitted": "it has emitted no N/Z-changing instruction itself", "other": "the last N/Z-changing instruction it emitted did not write A",
                            "unknown": "the instruction emitted last cannot be resolved"}[b]))
