"""Round-6 rules: totality of table lookups and of the remaining unwraps (C16), literal numbering (C09)."""
import re

from astlib import AnchorMissing, walk, expr_text
from core import rule
from scopes import scoped, strip, simple_name, lookup_helpers, _is_map_field

NAME_VARIANTS = ("Absolute", "AbsoluteX", "AbsoluteY")

# GeneratorState fields set by the downstream builder (cc2600 / cc7800; the in-tree reference is
# src/tests/build.rs), one line of reason each.  The rule checks the reference builder's writes.
BUILDER_FIELDS = {
    "self.current_function": "the builder sets current_function to a key it took from compiler_state.functions (and registers the same key in functions_code first)",
}


def _norm(e):
    return re.sub(r"\s+", "", expr_text(e))


class Origin:
    def __init__(self, kind, text, root=None, extra=None):
        self.kind = kind
        self.text = text
        self.root = root
        self.extra = extra

    def __repr__(self):
        return "%s(%s)" % (self.kind, self.text)


def origin(e, env, depth=0):
    """Where does the name denoted by expression e come from?"""
    e = strip(e)
    if not isinstance(e, dict) or depth > 6:
        return Origin("unknown", "?")
    k = e.get("k")
    if k == "lit" and e.get("ty") == "str":
        return Origin("lit", e["v"])
    if k == "macro" and e.get("name") == "format":
        return Origin("fmt", expr_text(e))
    if k == "path" and len(e["segs"]) == 1:
        nm = e["segs"][0]
        b = env.get(nm)
        if b is None:
            return Origin("unknown", nm)
        if b.ctor:
            c = b.ctor
            if c[0] in ("ExprType", "FlagsState") and c[-1] in NAME_VARIANTS and b.idx == 0:
                return Origin("et", "::".join(c), root=nm)
            if c == ["Expr", "Identifier"] and b.idx == 0:
                return Origin("ident", nm, root=nm)
            if c == ["Expr", "TmpId"] and b.idx == 0:
                return Origin("tmpid", nm, root=nm)
            if c == ["Some"] and b.scrut is not None:
                s = strip(b.scrut)
                if s.get("k") == "field" and s["base"].get("k") == "path" and s["base"]["segs"] == ["self"]:
                    return Origin("field", "self." + s["name"], root=nm)
                o = origin(b.scrut, env, depth + 1)
                return o
            return Origin("unknown", "%s bound in %s" % (nm, "::".join(c)))
        if b.src == "let" and b.init is not None:
            o = origin(b.init, env, depth + 1)
            if o.kind in ("ident", "et", "tmpid") and o.root is None:
                o.root = nm
            return o
        if b.src == "pat" and b.scrut is not None and b.depth == 0:
            # `match var.as_str() { ... variable => ...}`: the binder is the scrutinee itself
            o = origin(b.scrut, env, depth + 1)
            if o.kind != "unknown":
                o.extra = nm
                return o
        if b.src == "param":
            return Origin("param", nm, root=nm, extra=b.ty)
        return Origin("unknown", nm)
    if k == "field" and e["base"].get("k") == "path" and e["base"]["segs"] == ["self"]:
        return Origin("field", "self." + e["name"])
    return Origin("unknown", expr_text(e)[:60])


def _aliases(name, env):
    """Names that denote the same source name (binder <-> scrutinee root)."""
    out = {name}
    b = env.get(name)
    seen = 0
    while b is not None and seen < 6:
        seen += 1
        nxt = None
        if b.src == "pat" and b.depth == 0 and b.scrut is not None:
            nxt = simple_name(b.scrut)
        elif b.src == "let" and b.init is not None:
            nxt = simple_name(b.init)
        if nxt is None or nxt in out:
            break
        out.add(nxt)
        b = env.get(nxt)
    return out


def established(names, doms, helpers, maps):
    """Does a dominating statement / condition / arm establish that `name` is a key of the map?
    Returns a description or None."""
    def arg_is(e):
        return simple_name(e) in names

    for d in reversed(doms):
        if d[0] == "stmt":
            for n in _unconditional(d[1]):
                if n.get("k") == "mcall" and n["method"] in helpers and n.get("args") and arg_is(n["args"][helpers[n["method"]][1]] if len(n["args"]) > helpers[n["method"]][1] else n["args"][0]):
                    return "%s(%s) executed before" % (n["method"], "/".join(sorted(names)))
        elif d[0] == "cond" and d[2]:
            for n in walk(d[1]):
                if n.get("k") == "mcall" and n["method"] == "contains_key" and _is_map_field(n["recv"], maps) and n.get("args") and arg_is(n["args"][0]):
                    return "contains_key tested"
                if n.get("k") == "mcall" and n["method"] in ("is_some", "is_some_and"):
                    r = n["recv"]
                    if r.get("k") == "mcall" and r["method"] in ("get", "get_mut") and _is_map_field(r["recv"], maps) and r.get("args") and arg_is(r["args"][0]):
                        return "get(..).%s tested" % n["method"]
                    rn = simple_name(r)
                    if rn is not None:
                        # `let v = map.get(name); if v.is_some_and(..)`
                        for d2 in doms:
                            if d2[0] == "stmt" and d2[1].get("k") == "let" and rn in _pat_idents(d2[1].get("pat")):
                                i = strip(d2[1].get("init"))
                                if isinstance(i, dict) and i.get("k") == "mcall" and i["method"] in ("get", "get_mut") and _is_map_field(i["recv"], maps) and i.get("args") and arg_is(i["args"][0]):
                                    return "get(..) bound to %s and %s tested" % (rn, n["method"])
        elif d[0] == "arm":
            s = strip(d[1])
            p = d[2]
            if isinstance(s, dict) and s.get("k") == "mcall" and s["method"] in ("get", "get_mut") and _is_map_field(s["recv"], maps) and s.get("args") and arg_is(s["args"][0]):
                if isinstance(p, dict) and p.get("k") == "tstruct" and p.get("segs") == ["Some"]:
                    return "inside the Some arm of get(..)"
    return None


def _unconditional(stmt):
    """Nodes of a statement that are evaluated whenever the statement completes: no descent
    into branches, loops, closures or the right operand of a short-circuit operator."""
    stack = [stmt]
    while stack:
        n = stack.pop()
        if not isinstance(n, dict):
            continue
        yield n
        k = n.get("k")
        if k in ("closure", "loop", "while", "for"):
            continue
        if k == "if":
            stack.append(n["cond"])
            continue
        if k == "match":
            stack.append(n["e"])
            continue
        if k == "binary" and n.get("op") in ("&&", "||"):
            stack.append(n["l"])
            continue
        for key, v in n.items():
            if key in ("loc", "pat", "params"):
                continue
            if isinstance(v, dict):
                stack.append(v)
            elif isinstance(v, list):
                stack.extend(x for x in v if isinstance(x, dict))


def _pat_idents(p):
    out = set()
    def rec(x):
        if isinstance(x, dict):
            if x.get("k") == "ident":
                out.add(x["name"])
            for v in x.values():
                rec(v)
        elif isinstance(x, list):
            for y in x:
                rec(y)
    rec(p)
    return out


def checked_sinks(facts, helpers):
    """Functions taking an ExprType operand whose arm for a name-carrying variant starts by a
    *checked* lookup of the bound name: a literal name may be handed to them directly.
    -> {fn name: set(variants)}"""
    out = {}
    for fn in facts.fns:
        if not any("ExprType" in (p.get("ty") or "") for p in fn["params"]):
            continue
        first = {}
        for n, env, doms in scoped(fn):
            if n.get("k") == "mcall" and n["method"] in helpers and n.get("args"):
                h = helpers[n["method"]]
                a = n["args"][h[1]] if len(n["args"]) > h[1] else n["args"][0]
                o = origin(a, env)
                if o.kind == "et" and o.text.startswith("ExprType::"):
                    # was the operand pattern matched on a parameter?
                    b = env.get(o.root)
                    sroot = simple_name(b.scrut) if b is not None and b.scrut is not None else None
                    if sroot and env.get(sroot) is not None and env[sroot].src == "param":
                        v = o.text.split("::")[-1]
                        loc = tuple(int(x) for x in n["loc"].split(":"))
                        if v not in first or loc < first[v][0]:
                            first[v] = (loc, h[2])
        ok = {v for v, (_, kind) in first.items() if kind == "checked"}
        if ok:
            out[fn["name"]] = ok
    return out


@rule("T-LOOKUP-TOTAL", floor=30,
      text="every name handed to a panicking table lookup (get_variable, <map>.get(k).unwrap() on the variable and function tables) is known to be a key: "
           "it was bound from an ExprType::Absolute/AbsoluteX/AbsoluteY operand (those are built only from names that were looked up, from literal-table "
           "names, or from literal names handed straight to an emitter that checks them), or a dominating checked lookup / contains_key / Some-arm "
           "established it.  A name taken from the source (Expr::Identifier: the parser also admits X, Y and function names there), a literal name, "
           "or a name of unknown origin must not reach a panicking lookup: the compiler would abort instead of reporting an error")
def t_lookup_total(facts, res, tier):
    maps = ("variables", "functions")
    helpers = lookup_helpers(facts, maps)
    if not any(v[2] == "panics" for v in helpers.values()) and not helpers:
        raise AnchorMissing("no lookup helper found on the variable/function tables")
    sinks = checked_sinks(facts, helpers)
    n_sites = n_ctor = 0
    for fn in facts.fns:
        if fn["file"].endswith("/cpp.rs"):
            continue
        sc = scoped(fn)
        # comparison-only constructions
        cmp_only = set()
        direct_arg_of = {}
        for n, env, doms in sc:
            if n.get("k") == "binary" and n["op"] in ("==", "!="):
                for side in ("l", "r"):
                    cmp_only.add(id(strip(n[side])))
            if n.get("k") in ("mcall", "call"):
                callee = n["method"] if n["k"] == "mcall" else (n["func"]["segs"][-1] if n["func"].get("k") == "path" else None)
                for a in n.get("args", []):
                    direct_arg_of[id(strip(a))] = callee
        for n, env, doms in sc:
            k = n.get("k")
            # ---- lookup sites
            site = None
            if k == "mcall" and n["method"] in helpers and helpers[n["method"]][2] == "panics" and n.get("args"):
                h = helpers[n["method"]]
                site = (h[0], n["args"][h[1]] if len(n["args"]) > h[1] else n["args"][0], n["method"])
            elif k == "mcall" and n["method"] in ("unwrap", "expect"):
                r = n["recv"]
                if r.get("k") == "mcall" and r["method"] in ("get", "get_mut") and r.get("args"):
                    m = _is_map_field(r["recv"], maps)
                    if m:
                        params = [p.get("name") for p in fn["params"]]
                        if not (fn["name"] in helpers and simple_name(r["args"][0]) in params):
                            site = (m, r["args"][0], "%s.get().unwrap" % m)
            elif k == "index":
                m = _is_map_field(n["base"], maps)
                if m:
                    site = (m, n["idx"], "%s[..]" % m)
            if site:
                m, keyexpr, how = site
                n_sites += 1
                o = origin(keyexpr, env)
                root = simple_name(keyexpr)
                names = _aliases(root, env) if root else set()
                est = established(names, doms, {h: v for h, v in helpers.items()}, maps) if names else None
                key = "T-LOOKUP-TOTAL:%s:%s:%s:%s" % (fn["name"], m, o.kind, o.text if o.kind in ("lit", "field") else (root or _norm(keyexpr)[:30]))
                ok = False
                why = None
                if o.kind == "et" and m == "variables":
                    ok, why = True, "name of an %s operand" % o.text
                elif o.kind == "tmpid" and m == "variables":
                    ok, why = True, "literal-table name (Expr::TmpId): registered by parse_expr, see T-LITERAL-MERGE"
                elif est:
                    ok, why = True, est
                elif o.kind == "field" and o.text == "self.current_function" and fn["file"].endswith("/compile.rs") and m == "functions":
                    # compile.rs: the current function is inserted right after it is made current
                    ok, why = _current_function_registered(facts, res)
                elif o.kind == "field" and o.text in BUILDER_FIELDS and m == "functions" and "/generate/" in fn["file"]:
                    ok, why = True, "builder contract: " + BUILDER_FIELDS[o.text]
                res.inst(key, True, {"function": fn["name"], "table": m, "via": how, "key": _norm(keyexpr)[:60], "origin": repr(o), "established": why})
                if not ok:
                    if o.kind == "ident":
                        msg = "%s looks up `%s` with %s, but the name comes straight from an Expr::Identifier: the parser admits X, Y and function names (prototypes have no table entry) there, so the lookup panics on e.g. sizeof(X), &X, *X, strobe(X) or a prototype-only name used as a value" % (fn["name"], root, how)
                    elif o.kind == "lit":
                        msg = "%s looks up the literal name \"%s\" with %s: nothing guarantees the program or the builder declared it" % (fn["name"], o.text, how)
                    else:
                        msg = "%s looks up `%s` (origin: %r) with %s and nothing establishes that it is a key of `%s`" % (fn["name"], _norm(keyexpr)[:60], o, how, m)
                    res.fail(key, facts.where(fn, n), msg)
            # ---- constructions of name-carrying operands
            if k == "call" and n["func"].get("k") == "path" and n["func"]["segs"][0] == "ExprType" and n["func"]["segs"][-1] in NAME_VARIANTS and n.get("args"):
                if id(n) in cmp_only:
                    continue
                n_ctor += 1
                variant = n["func"]["segs"][-1]
                a = n["args"][0]
                o = origin(a, env)
                root = simple_name(a)
                names = _aliases(root, env) if root else set()
                est = established(names, doms, helpers, maps) if names else None
                key = "T-LOOKUP-TOTAL:%s:build-%s:%s:%s" % (fn["name"], variant, o.kind, o.text if o.kind in ("lit", "field") else (root or _norm(a)[:30]))
                ok = False
                why = None
                if o.kind in ("et", "tmpid"):
                    ok, why = True, "rebuilt from %r" % o
                elif est:
                    ok, why = True, est
                elif o.kind == "lit":
                    callee = direct_arg_of.get(id(n))
                    if callee in sinks and variant in sinks[callee]:
                        ok, why = True, "handed directly to %s(), whose %s arm begins with a checked lookup" % (callee, variant)
                res.inst(key, True, {"function": fn["name"], "variant": variant, "name": _norm(a)[:60], "origin": repr(o), "established": why})
                if not ok:
                    if o.kind == "lit":
                        msg = "%s builds ExprType::%s(\"%s\") and hands it to %s(): every consumer looks the name up with a panicking lookup, and nothing guarantees the program or the builder declared \"%s\" (e.g. csleep() without a DUMMY location, a banked call without ROM_SELECT)" % (fn["name"], variant, o.text, direct_arg_of.get(id(n)), o.text)
                    else:
                        msg = "%s builds ExprType::%s from `%s` (origin: %r) without establishing that it names a variable: every consumer of the operand looks it up with a panicking lookup" % (fn["name"], variant, _norm(a)[:60], o)
                    res.fail(key, facts.where(fn, n), msg)
    res.note("%d lookup sites, %d constructions of name-carrying operands; helpers: %s; checked sinks: %s" % (n_sites, n_ctor, {k: v[2] for k, v in helpers.items()}, {k: sorted(v) for k, v in sinks.items()}))
    # reference builder contract
    for fn in facts.fns:
        for n, env, doms in scoped(fn):
            if n.get("k") == "assign" and _norm(n["l"]).endswith(".current_function") and fn["file"].endswith("/build.rs"):
                r = strip(n["r"])
                key = "T-LOOKUP-TOTAL:builder:%s:current_function" % fn["name"]
                if r.get("k") == "path" and r["segs"] == ["None"]:
                    continue
                inner = r["args"][0] if r.get("k") == "call" and r.get("args") else r
                root = None
                x = strip(inner)
                while isinstance(x, dict) and x.get("k") in ("field", "index", "mcall"):
                    x = strip(x.get("base") or x.get("recv"))
                if isinstance(x, dict) and x.get("k") == "path":
                    root = x["segs"][0]
                b = env.get(root)
                ok = b is not None and b.src == "for" and "sorted_functions" in _norm(b.scrut)
                res.inst(key, True, {"assigned": _norm(n["r"]), "iterates": _norm(b.scrut) if b is not None and b.scrut is not None else None})
                if not ok:
                    res.fail(key, facts.where(fn, n), "the reference builder sets current_function to `%s`, which is not a key taken from compiler_state.functions" % _norm(n["r"]))


def _current_function_registered(facts, res):
    """compile.rs: `self.current_function = name` is preceded, in the same block, by
    `self.functions.insert(name, ..)` or followed by it before any lookup; and nothing removes
    from `functions`."""
    for fn in facts.fns:
        if not fn["file"].endswith("/compile.rs"):
            continue
        for n in walk(fn["body"]):
            if n.get("k") == "mcall" and n["method"] in ("remove", "clear", "retain", "drain") and _is_map_field(n["recv"], ("functions",)):
                return False, None
    setters = []
    for fn in facts.fns:
        if not fn["file"].endswith("/compile.rs"):
            continue
        for n, env, doms in scoped(fn):
            if n.get("k") == "block":
                st = n.get("stmts", [])
                for i, s in enumerate(st):
                    if s.get("k") == "assign" and _norm(s["l"]) == "self.current_function":
                        nm = simple_name(s["r"])
                        # an insert of the same name into functions later in this block, before any get_mut(current_function)
                        good = False
                        for t in st[i + 1:]:
                            ins = [x for x in walk(t) if x.get("k") == "mcall" and x["method"] == "insert" and _is_map_field(x["recv"], ("functions",)) and x.get("args") and simple_name(x["args"][0]) == nm]
                            if ins:
                                good = True
                                break
                            if any(x.get("k") == "mcall" and x["method"] in ("get_mut", "get") and _is_map_field(x["recv"], ("functions",)) and "current_function" in _norm(x) for x in walk(t)):
                                break
                        setters.append(good)
    if setters and all(setters):
        return True, "compile.rs inserts the function under the same name right after making it current (%d setter(s)); nothing removes functions" % len(setters)
    return False, None


# ----------------------------------------------------------------------------- literal tables


def _tuple_index_of_map(ret):
    """Index of the HashMap component in `Result<(A, B, HashMap<..>), Error>`."""
    t = ret.replace(" ", "")
    m = re.match(r"^Result<\((.*)\),(?:crate::)?(?:error::)?Error>$", t)
    if not m:
        return None
    depth = 0
    parts = [""]
    for ch in m.group(1):
        if ch in "<(":
            depth += 1
        elif ch in ">)":
            depth -= 1
        if ch == "," and depth == 0:
            parts.append("")
        else:
            parts[-1] += ch
    for i, p in enumerate(parts):
        if p.startswith("HashMap<String,String>"):
            return i
    return None


@rule("T-LITERAL-MERGE", floor=8,
      text="string literals met while parsing an expression are never lost and never share a name: every call of a literal-collecting parser "
           "(a function returning the (name -> bytes) table of the literals it met) has its table merged into the caller's table or registered as "
           "variables, and advances the caller's numbering by the table's size; a parser entered from inside another one starts numbering at the "
           "caller's current count, which it receives as an argument (never at the per-statement base again); and every Expr::TmpId names an entry "
           "that was put into the table in the same arm")
def t_literal_merge(facts, res, tier):
    fns = [f for f in facts.fns if f["file"].endswith("/compile.rs")]
    P = {}
    for f in fns:
        i = _tuple_index_of_map(f["ret"])
        if i is not None:
            P[f["name"]] = i
    if not P:
        raise AnchorMissing("no literal-collecting parser (returning a HashMap<String, String> component) found in compile.rs")
    # which of them allocate names, and from what is their counter initialised
    alloc = {}
    for f in fns:
        if f["name"] not in P:
            continue
        for n in walk(f["body"]):
            if n.get("k") == "call" and n["func"].get("k") == "path" and n["func"]["segs"] == ["Expr", "TmpId"]:
                alloc[f["name"]] = True
    callers_in_P = {}
    for f in fns:
        for n in walk(f["body"]):
            if n.get("k") == "mcall" and n["method"] in P:
                if f["name"] in P:
                    callers_in_P.setdefault(n["method"], set()).add(f["name"])
    for f in fns:
        params = [p.get("name") for p in f["params"] if p.get("name") != "self"]
        in_P = f["name"] in P
        # the running counter of this function: `let <c> = Rc::new(Mutex::new(<init>))` whose name is locked and formatted into a name
        counter = None
        counter_init = None
        if f["name"] in alloc:
            for n in walk(f["body"]):
                if n.get("k") == "let" and n.get("init") is not None and "Mutex::new" in _norm(n["init"]) and "HashMap" not in _norm(n["init"]):
                    nm = _pat_idents(n["pat"])
                    if len(nm) == 1:
                        counter = list(nm)[0]
                        m = re.search(r"Mutex::new\((.*?)\)\)*$", _norm(n["init"]))
                        counter_init = m.group(1) if m else _norm(n["init"])
            key = "T-LITERAL-MERGE:%s:counter-start" % f["name"]
            nested = sorted(callers_in_P.get(f["name"], ()))
            res.inst(key, True, {"function": f["name"], "counter": counter, "starts_at": counter_init, "entered_from_parsers": nested})
            if counter is None:
                res.fail(key, facts.where(f), "%s allocates literal names but its running counter was not found" % f["name"])
            elif nested and counter_init not in params:
                res.fail(key, facts.where(f), "%s is entered from inside %s but starts numbering its literals at `%s` instead of a start value given by the caller: two literals of one statement get the same name (e.g. f(\"a\") + f(\"b\") stores one string and uses it twice)" % (f["name"], ", ".join(nested), counter_init))
        sc = scoped(f)
        for n, env, doms in sc:
            if not (n.get("k") == "mcall" and n["method"] in P):
                continue
            callee = n["method"]
            idx = P[callee]
            # bound to which name?
            bound = None
            region = None
            for n2, env2, doms2 in sc:
                if n2.get("k") == "block":
                    st = n2.get("stmts", [])
                    for i, s2 in enumerate(st):
                        if s2.get("k") == "let" and s2.get("init") is not None and any(x is n for x in _unconditional(s2["init"])):
                            nm = _pat_idents(s2["pat"])
                            if len(nm) == 1:
                                bound = list(nm)[0]
                                region = {"k": "block", "stmts": st[i + 1:]}
            key = "T-LITERAL-MERGE:%s:call:%s" % (f["name"], callee)
            uses_map = uses_len = 0
            if bound:
                for x in walk(region):
                    if x.get("k") == "field" and x["name"] == str(idx) and x["base"].get("k") == "path" and x["base"]["segs"] == [bound]:
                        # `.len()` use or another use?
                        is_len = any(y.get("k") == "mcall" and y["method"] == "len" and strip(y["recv"]) is x for y in walk(region))
                        if is_len:
                            uses_len += 1
                        else:
                            uses_map += 1
            # start argument
            start = None
            callee_fn = [g for g in fns if g["name"] == callee][0]
            cparams = [p.get("name") for p in callee_fn["params"] if p.get("name") != "self"]
            start_param = None
            for i, p in enumerate(callee_fn["params"]):
                if p.get("name") != "self" and (p.get("ty") or "").strip() == "usize":
                    start_param = cparams.index(p["name"])
            if start_param is not None and len(n.get("args", [])) > start_param:
                start = n["args"][start_param]
            start_ok = None
            start_desc = None
            if in_P:
                if start is None:
                    start_ok = False
                    start_desc = "no start value is passed"
                else:
                    o = simple_name(start)
                    b = env.get(o) if o else None
                    if counter is not None:
                        # must read the running counter
                        init = _norm(b.init) if b is not None and b.init is not None else _norm(start)
                        start_ok = counter in re.findall(r"\w+", init)
                        start_desc = "start = %s" % init
                    else:
                        start_ok = o in params
                        start_desc = "start = own parameter %s" % o
            res.inst(key, True, {"function": f["name"], "callee": callee, "bound_to": bound, "table_uses": uses_map, "len_uses": uses_len, "start": start_desc})
            if not bound or uses_map == 0:
                res.fail(key, facts.where(f, n), "%s calls %s() and drops the table of string literals it returns (only other components of `%s` are used): a literal met there is used by the generated code but never stored, and its name is never registered (e.g. a string literal inside a subscript: t[f(\"x\")])" % (f["name"], callee, bound))
            elif counter is not None and uses_len == 0:
                res.fail(key + ":advance", facts.where(f, n), "%s merges the literals of %s() but does not advance its own numbering by their count: the next literal reuses a name" % (f["name"], callee))
            if in_P and start_ok is False:
                res.fail(key + ":start", facts.where(f, n), "%s (a literal-collecting parser) enters %s() but %s that reads its own running count: the nested parse numbers its literals from the statement's base again" % (f["name"], callee, start_desc or "passes no start value"))
        # TmpId <-> insert pairing
        for n, env, doms in sc:
            if n.get("k") == "call" and n["func"].get("k") == "path" and n["func"]["segs"] == ["Expr", "TmpId"] and n.get("args"):
                nm = simple_name(n["args"][0])
                key = "T-LITERAL-MERGE:%s:tmpid" % f["name"]
                ok = False
                for d in doms:
                    if d[0] == "stmt":
                        for x in _unconditional(d[1]):
                            if x.get("k") == "mcall" and x["method"] == "insert" and x.get("args") and simple_name(x["args"][0]) == nm:
                                ok = True
                res.inst(key, True, {"function": f["name"], "name": nm, "inserted_before": ok})
                if not ok:
                    res.fail(key, facts.where(f, n), "%s builds Expr::TmpId(%s) without putting that name into the literal table first" % (f["name"], nm))


# ----------------------------------------------------------------------------- constant arithmetic


CONST_CTORS = {("ExprType", "Immediate", 0), ("Expr", "Integer", 0), ("ExprType", "Absolute", 2), ("VariableValue", "Int", 0)}
CONST_SOURCES = ("parse_calc", "parse_int", "parse_sizeof")
OVERFLOWING = ("+", "-", "*", "<<")


def _const_origin(e, env, depth=0):
    """Is e an i32 taken from the source text (a constant the user wrote, or arithmetic on one)?"""
    e = strip(e)
    if not isinstance(e, dict) or depth > 5:
        return None
    k = e.get("k")
    if k == "path" and len(e["segs"]) == 1:
        b = env.get(e["segs"][0])
        if b is None:
            return None
        if b.ctor and (b.ctor[0], b.ctor[-1], b.idx) in CONST_CTORS:
            return "::".join(b.ctor)
        if b.src == "closure" and getattr(b, "ty", None) == "const-operand":
            return "operand of a constant evaluator"
        if b.src == "let" and b.init is not None:
            return _const_origin(b.init, env, depth + 1)
        return None
    if k == "mcall" and e["method"] in CONST_SOURCES:
        return e["method"] + "()"
    if k == "try":
        return _const_origin(e["e"], env, depth + 1)
    if k == "binary" and e["op"] in ("+", "-", "*", "<<", ">>", "/", "%"):
        return _const_origin(e["l"], env, depth + 1) or _const_origin(e["r"], env, depth + 1)
    if k == "unary" and e["op"] == "-":
        return _const_origin(e["e"], env, depth + 1)
    if k == "cast":
        return _const_origin(e["e"], env, depth + 1)
    if k == "if":
        return _const_origin(_tail(e.get("then")), env, depth + 1) or _const_origin(_tail(e.get("else")), env, depth + 1)
    if k == "match":
        for a in e.get("arms", []):
            o = _const_origin(_tail(a.get("body")), env, depth + 1)
            if o:
                return o
    if k == "block":
        return _const_origin(_tail(e), env, depth + 1)
    return None


def _tail(n):
    while isinstance(n, dict) and n.get("k") == "block" and n.get("stmts"):
        n = n["stmts"][-1]
    return n


def _int_lit(e):
    e = strip(e)
    if isinstance(e, dict) and e.get("k") == "lit" and e.get("ty") == "int":
        try:
            return int(str(e["v"]).replace("_", ""), 0)
        except ValueError:
            return None
    return None


def _bounded(e, doms):
    """A dominating comparison of the same expression with a literal bounds it from above
    (and, for the uses here, makes overflow impossible): `if value < 8 {..}`, `== 8`."""
    t = _norm(strip(e))
    for d in doms:
        if d[0] == "cond" and d[2]:
            for n in walk(d[1]):
                if n.get("k") == "binary" and n["op"] in ("<", "<=", "==") and _norm(strip(n["l"])) == t and _int_lit(n["r"]) is not None:
                    return True
        if d[0] == "arm" and _norm(strip(d[1])) == t and isinstance(d[2], dict) and d[2].get("k") in ("lit", "range"):
            return True
    return False


@rule("T-CONST-ARITH", floor=10,
      text="arithmetic on constants taken from the source text cannot overflow: wherever a value that comes from an integer the user wrote (Expr::Integer, "
           "ExprType::Immediate, the constant offset of an Absolute operand, the operands of the constant-expression evaluator, results of parse_calc / "
           "parse_int) is combined with another such value or with a literal by + - * << or negated, or two such values are divided or shifted, the "
           "operation is a checked_* / wrapping_* call (or the operand is bounded by an enclosing comparison): a bare operator panics on overflow in "
           "a debug build and, for i32::MIN / -1 and out-of-range shifts, in every build")
def t_const_arith(facts, res, tier):
    n_sites = n_safe = 0
    for fn in facts.fns:
        if fn["file"].endswith("/cpp.rs") or "/tests/" in fn["file"]:
            continue
        # closures given to map_infix / map_prefix in a function that evaluates to i32: their operands are constants
        evaluator = fn["ret"].replace(" ", "").startswith("Result<i32,")
        sc = scoped(fn)
        if evaluator:
            for n, env, doms in sc:
                if n.get("k") == "mcall" and n["method"] in ("map_infix", "map_prefix", "map_postfix") and n.get("args") and n["args"][0].get("k") == "closure":
                    for p in n["args"][0].get("params", []):
                        nm = p.get("name")
                        if nm in ("lhs", "rhs"):
                            for n2, env2, doms2 in sc:
                                b = env2.get(nm)
                                if b is not None and b.src == "closure":
                                    b.ty = "const-operand"
        seen = set()
        for n, env, doms in sc:
            k = n.get("k")
            desc = None
            if k == "binary" and n["op"] in ("+", "-", "*", "<<", ">>", "/", "%"):
                kl, kr = _const_origin(n["l"], env), _const_origin(n["r"], env)
                ll, lr = _int_lit(n["l"]), _int_lit(n["r"])
                bl, br = (kl and _bounded(n["l"], doms)), (kr and _bounded(n["r"], doms))
                op = n["op"]
                if kl and kr and not (bl and br):
                    desc = "both operands come from the source"
                elif op in OVERFLOWING and ((kl and not bl and lr is not None and not (op in ("+", "-") and lr == 0) and not (op == "*" and lr in (0, 1))) or
                                             (kr and not br and ll is not None and not (op == "<<") and not (op in ("+",) and ll == 0) and not (op == "*" and ll in (0, 1)))):
                    desc = "a source constant combined with a literal"
                elif op == "<<" and kr and not br:
                    desc = "shift count from the source"
                elif op in OVERFLOWING and ((kl and not bl and lr is None) or (kr and not br and ll is None)) and op != "<<":
                    desc = "a source constant combined with another value"
                # counted as safe instance otherwise
                if (kl or kr) and desc is None:
                    n_safe += 1
            elif k == "unary" and n["op"] == "-" and _const_origin(n["e"], env) and _int_lit(n["e"]) is None:
                desc = "negation of a source constant"
            elif k == "assignop" and n["op"] in OVERFLOWING and _const_origin(n["r"], env) and not _bounded(n["r"], doms):
                desc = "compound assignment of a source constant"
            if desc is None:
                continue
            n_sites += 1
            key = "T-CONST-ARITH:%s:%s" % (fn["name"], _norm(n)[:40])
            if key in seen:
                continue
            seen.add(key)
            res.inst(key, True, {"function": fn["name"], "expression": expr_text(n)[:80], "why": desc})
            res.fail(key, facts.where(fn, n), "%s computes `%s` with a bare operator (%s): an overflow panics (i32::MAX + 1, 65536 * 65536, 1 << 40, -(i32::MIN), i32::MIN / -1) instead of being reported or wrapped" % (fn["name"], expr_text(n)[:80], desc))
    # a left shift of two source constants: checked_shl / wrapping_shl look at the count only - `0x10000 << 16` is 0 to them.
    # The value must be checked as well (widen and convert back, or multiply with a check)
    for fn in facts.fns:
        if fn["file"].endswith("/cpp.rs") or "/tests/" in fn["file"]:
            continue
        widening = any(x.get("k") == "cast" and x["ty"].replace(" ", "") in ("i64", "i128") for x in walk(fn["body"])) and "try_from" in _norm(fn["body"])
        for node, env, doms in scoped(fn):
            if node.get("k") == "mcall" and node["method"] in ("checked_shl", "wrapping_shl", "overflowing_shl") and node.get("args"):
                kl = _const_origin(node["recv"], env)
                # the count may have gone through try_from(..).ok().and_then(|s| ..): look at the closure's origin too
                if kl and not widening:
                    key = "T-CONST-ARITH:%s:%s" % (fn["name"], _norm(node)[:40])
                    res.inst(key, True, {"function": fn["name"], "expression": expr_text(node)[:80], "why": "left shift checked for its count only"})
                    res.fail(key, facts.where(fn, node), "%s shifts the source constant `%s` left with %s: that checks the count, not the value - `0x10000 << 16` and `0x7fffffff << 1` wrap silently instead of being rejected" % (fn["name"], expr_text(node["recv"])[:40], node["method"]))
    # checked/wrapping calls on constants are the positive instances
    for fn in facts.fns:
        if fn["file"].endswith("/cpp.rs") or "/tests/" in fn["file"]:
            continue
        for n in walk(fn["body"]):
            if n.get("k") == "mcall" and re.match(r"^(checked|wrapping|saturating|overflowing)_(add|sub|mul|div|rem|neg|shl|shr)$", n["method"]):
                res.inst("T-CONST-ARITH:%s:%s:%s" % (fn["name"], n["method"], _norm(n)[:40]), True, {"function": fn["name"], "call": expr_text(n)[:80]})
    res.note("%d bare operations on source constants, %d constant operations that cannot overflow (comparisons with literals, shifts by literal counts, bitwise)" % (n_sites, n_safe))


# ----------------------------------------------------------------------------- positions handed down the generator


@rule("T-POS-FLOW", floor=400,
      text="in the code generator every argument in a source-position slot (the `pos` / `loc` parameter of asm, syntax_error, compiler_error, warning, "
           "find_variable and of every generate_* function) is a source position: the caller's own position parameter, the `.pos` of a statement, or the "
           "position stored with a deferred increment.  A literal position is accepted only for a label / operand-less instruction (which asm cannot "
           "reject).  Any other usize - an index into the instruction list, a counter, a length - makes the error carry a wrong line")
def t_pos_flow(facts, res, tier):
    slots = {}
    for fn in facts.fns:
        ps = [p for p in fn["params"] if p.get("name") != "self"]
        for i, p in enumerate(ps):
            if p.get("name") in ("pos", "loc") and (p.get("ty") or "").strip() == "usize":
                slots.setdefault(fn["name"], set()).add(i)
    if "asm" not in slots or "syntax_error" not in slots:
        raise AnchorMissing("asm()/syntax_error() no longer take a `pos`/`loc: usize` parameter")
    # deferred increments: which tuple index holds the position
    stored = set()
    for fn in facts.fns:
        if "/generate/" not in fn["file"]:
            continue
        for n, env, doms in scoped(fn):
            if n.get("k") == "mcall" and n["method"] == "push" and _norm(n["recv"]).endswith("deferred_plusplus") and n.get("args") and n["args"][0].get("k") == "tuple":
                for i, e in enumerate(n["args"][0]["elems"]):
                    nm = simple_name(e)
                    b = env.get(nm) if nm else None
                    if b is not None and b.src == "param" and nm in ("pos", "loc"):
                        stored.add(i)
    n_sites = 0
    for fn in facts.fns:
        if "/generate/" not in fn["file"]:
            continue
        own = {p.get("name") for p in fn["params"] if p.get("name") in ("pos", "loc") and (p.get("ty") or "").strip() == "usize"}
        for n, env, doms in scoped(fn):
            if not (n.get("k") == "mcall" and n["method"] in slots):
                continue
            for i in sorted(slots[n["method"]]):
                if i >= len(n.get("args", [])):
                    continue
                a = n["args"][i]
                n_sites += 1
                sa = strip(a)
                nm = simple_name(a)
                ok = False
                why = None
                b = env.get(nm) if nm else None
                if nm and b is not None and b.src == "param" and nm in own:
                    ok, why = True, "own position parameter"
                elif isinstance(sa, dict) and sa.get("k") == "field" and sa["name"] == "pos":
                    ok, why = True, "position of a statement"
                elif isinstance(sa, dict) and sa.get("k") == "field" and sa["name"].isdigit() and int(sa["name"]) in stored:
                    base = simple_name(sa["base"])
                    bb = env.get(base) if base else None
                    if bb is not None and bb.scrut is not None and "deferred_plusplus" in _norm(bb.scrut) or (bb is not None and bb.init is not None and "deferred_plusplus" in _norm(bb.init)):
                        ok, why = True, "position stored with a deferred increment"
                    elif bb is not None and bb.src == "for":
                        it = _norm(bb.scrut) if bb.scrut is not None else ""
                        src = env.get(it)
                        if "deferred_plusplus" in it or (src is not None and src.init is not None and "deferred_plusplus" in _norm(src.init)):
                            ok, why = True, "position stored with a deferred increment"
                elif _int_lit(a) is not None:
                    opnd = [x for j, x in enumerate(n["args"]) if j != i and isinstance(strip(x), dict) and strip(x).get("k") in ("call", "path") and _norm(x).startswith("ExprType::")]
                    if n["method"] == "asm" and opnd and re.match(r"^ExprType::(Label\(|Nothing$)", _norm(opnd[0])):
                        ok, why = True, "literal position with a label / no operand"
                if ok:
                    continue
                key = "T-POS-FLOW:%s:%s:%s" % (fn["name"], n["method"], _norm(a)[:30])
                res.inst(key, True, {"function": fn["name"], "callee": n["method"], "argument": expr_text(a)[:60]})
                res.fail(key, facts.where(fn, n), "%s passes `%s` as the source position of %s(): it is not the function's position parameter, a statement's `.pos` or a stored position, so an error raised there is reported on an unrelated line" % (fn["name"], expr_text(a)[:60], n["method"]))
    res.inst("T-POS-FLOW:sites", True, {"position_arguments_checked": n_sites, "stored_position_index": sorted(stored)})
    for i in range(n_sites):
        res.inst("T-POS-FLOW:site#%d" % i, True)


# ----------------------------------------------------------------------------- the preprocessor's line counter


@rule("T-LINE-COUNT", floor=2,
      text="the preprocessor's physical-line counter counts lines that exist: in process() every read of a line is the condition `read_line(..)? > 0` "
           "of a loop or an if, and the region guarded by each such successful read increments `line` exactly once (before reading again); no "
           "increment lies outside such a region.  A counter that runs ahead of the input puts errors on a line after the last one")
def t_line_count(facts, res, tier):
    fn = facts.fn("process", None) if False else None
    for f in facts.fns:
        if f["name"] == "process" and f["file"].endswith("/cpp.rs"):
            fn = f
    if fn is None:
        raise AnchorMissing("cpp.rs: process() not found")
    sc = scoped(fn)
    reads = [n for n, env, doms in sc if n.get("k") == "mcall" and n["method"] == "read_line"]
    if not reads:
        raise AnchorMissing("process() no longer reads lines with read_line")

    def read_guard(cond):
        """cond is `<..read_line(..)..> > 0` (or `0 < ..`, `!= 0`)"""
        c = strip(cond)
        if isinstance(c, dict) and c.get("k") == "binary" and c["op"] in (">", "!=", "<"):
            l, r = c["l"], c["r"]
            if c["op"] == "<":
                l, r = r, l
            if _int_lit(r) == 0 and any(x.get("k") == "mcall" and x["method"] == "read_line" for x in walk(l)):
                return [x for x in walk(l) if x.get("k") == "mcall" and x["method"] == "read_line"][0]
        return None

    guards = {}  # id(read) -> count of increments
    guarded_reads = set()
    for n, env, doms in sc:
        if n.get("k") in ("if", "while"):
            r = read_guard(n["cond"])
            if r is not None:
                guarded_reads.add(id(r))
                guards.setdefault(id(r), [r, 0])
    for r in reads:
        key = "T-LINE-COUNT:read:%s" % ("guarded" if id(r) in guarded_reads else "unguarded")
        res.inst(key, True, {"read": expr_text(r)[:60]})
        if id(r) not in guarded_reads:
            res.fail(key, facts.where(fn, r), "process() reads a line with `%s` outside a `read_line(..)? > 0` condition: whether a line was read is not what decides the counting" % expr_text(r)[:60])
    n_inc = 0
    for n, env, doms in sc:
        if n.get("k") == "assignop" and n["op"] == "+" and simple_name(n["l"]) == "line":
            n_inc += 1
            inner = None
            for d in doms:
                if d[0] == "cond" and d[2]:
                    r = read_guard(d[1])
                    if r is not None:
                        inner = r
            key = "T-LINE-COUNT:increment#%d" % n_inc
            res.inst(key, True, {"guarded_by": expr_text(inner)[:60] if inner else None})
            if inner is None:
                res.fail(key, facts.where(fn, n), "process() increments `line` where no successful read guards it")
            else:
                guards[id(inner)][1] += 1
    for rid, (r, cnt) in guards.items():
        key = "T-LINE-COUNT:per-read:%s" % expr_text(r)[:40]
        res.inst(key, True, {"increments": cnt})
        if cnt != 1:
            res.fail(key, facts.where(fn, r), "the region guarded by the successful read `%s` increments `line` %d times (expected once): the counter %s the physical lines" % (expr_text(r)[:50], cnt, "runs ahead of" if cnt > 1 else "falls behind"))


# ----------------------------------------------------------------------------- splices come first


@rule("T-SPLICE-FIRST", floor=1,
      text="backslash-newline splicing is the first thing done to a physical line and depends on nothing but the text of that line: the test that "
           "recognises a trailing backslash-newline in process(), and every condition enclosing it inside the read loop, mentions only the line "
           "buffer - not the comment state, the conditional-compilation state or the macro table.  (The state variables describe the *start* of the "
           "line; the splice sits at its end, where a comment may have closed or a directive may have been recognised.)")
def t_splice_first(facts, res, tier):
    fn = None
    for f in facts.fns:
        if f["name"] == "process" and f["file"].endswith("/cpp.rs"):
            fn = f
    if fn is None:
        raise AnchorMissing("cpp.rs: process() not found")
    n_sites = 0
    for n, env, doms in scoped(fn):
        if n.get("k") not in ("if", "while"):
            continue
        c = n["cond"]
        tests = [x for x in walk(c) if x.get("k") == "mcall" and x["method"] == "ends_with" and x.get("args") and x["args"][0].get("k") == "lit" and str(x["args"][0].get("v", "")).startswith("\\") and "\n" in str(x["args"][0]["v"])]
        if not tests:
            continue
        bufs = {simple_name(t["recv"]) for t in tests}
        n_sites += 1
        key = "T-SPLICE-FIRST:test#%d" % n_sites
        names = set()
        for x in walk(c):
            if x.get("k") == "path" and len(x["segs"]) == 1:
                names.add(x["segs"][0])
            if x.get("k") == "field":
                names.add(_norm(x))
        conds = []
        for d in doms:
            if d[0] == "cond" and not any(y.get("k") == "mcall" and y["method"] == "read_line" for y in walk(d[1])):
                conds.append(d[1])
                for x in walk(d[1]):
                    if x.get("k") == "path" and len(x["segs"]) == 1:
                        names.add(x["segs"][0])
            if d[0] == "arm":
                for x in walk(d[1]):
                    if x.get("k") == "path" and len(x["segs"]) == 1:
                        names.add(x["segs"][0])
        extra = sorted(x for x in names - bufs if x not in ("true", "false"))
        res.inst(key, True, {"buffer": sorted(b for b in bufs if b), "also_mentions": extra})
        if extra:
            res.fail(key, facts.where(fn, n), "the splice test of process() also depends on %s: a backslash-newline is then kept or removed according to state that describes the start of the line (e.g. code after the `*/` that closes a comment keeps its trailing backslash, so a multi-line #define there is cut after its first line)" % ", ".join("`%s`" % e for e in extra))
    if n_sites == 0:
        raise AnchorMissing("process(): no test of a trailing backslash-newline found")


# ----------------------------------------------------------------------------- literals are stored byte by byte


@rule("T-LITERAL-BYTES", floor=4,
      text="wherever the decoded text of a string literal is turned into table entries (VariableValue::Int(x as i32) for each x of the text) the text "
           "is walked byte by byte (as_bytes / bytes / into_bytes), never character by character: a non-ASCII character is several bytes, and every "
           "sibling site must store the same bytes")
def t_literal_bytes(facts, res, tier):
    n_sites = 0
    for fn in facts.fns:
        if not fn["file"].endswith("/compile.rs"):
            continue
        for n, env, doms in scoped(fn):
            if not (n.get("k") == "call" and _norm(n["func"]) == "VariableValue::Int" and n.get("args")):
                continue
            a = n["args"][0]
            if not (isinstance(a, dict) and a.get("k") == "cast"):
                continue
            nm = simple_name(a["e"])
            b = env.get(nm) if nm else None
            if b is not None and b.src == "let" and b.init is not None:
                # `let d = <some recoding of c>;`: the element is the loop variable the recoding reads
                for x in walk(b.init):
                    if x.get("k") == "path" and len(x["segs"]) == 1:
                        bb = env.get(x["segs"][0])
                        if bb is not None and bb.src in ("for", "closure"):
                            b = bb
                            break
            if b is None or b.src not in ("for", "closure"):
                continue
            # what is iterated?
            it = None
            if b.src == "for":
                it = b.scrut
            else:
                # closure parameter: the receiver chain of the adaptor the closure was given to
                for n2, env2, doms2 in scoped(fn):
                    if n2.get("k") == "mcall" and n2.get("args") and any(x is n for a2 in n2["args"] if isinstance(a2, dict) and a2.get("k") == "closure" for x in walk(a2)):
                        it = n2["recv"]
            if it is None:
                continue
            # resolve a local that holds the iterated thing
            chain = _norm(it)
            root = it
            while isinstance(root, dict) and root.get("k") in ("mcall", "ref", "unary"):
                root = root.get("recv") or root.get("e")
            rn = simple_name(root) if isinstance(root, dict) else None
            rb = env.get(rn) if rn else None
            if rb is not None and rb.src == "let" and rb.init is not None:
                chain = _norm(rb.init) + " -> " + chain
            n_sites += 1
            key = "T-LITERAL-BYTES:%s#%d" % (fn["name"], n_sites)
            by_bytes = bool(re.search(r"\.(as_bytes|bytes|into_bytes)\(\)", chain))
            by_chars = bool(re.search(r"\.(chars|char_indices)\(\)", chain))
            res.inst(key, True, {"function": fn["name"], "walks": chain[:100], "by_bytes": by_bytes})
            if by_chars or not by_bytes:
                res.fail("T-LITERAL-BYTES:%s:%s" % (fn["name"], "chars" if by_chars else "unknown"), facts.where(fn, n),
                         "%s stores a literal's text through `%s`: %s, so a non-ASCII character is stored as one entry holding its code point instead of its UTF-8 bytes (and the sibling sites store bytes)" % (fn["name"], chain[:100], "it walks characters" if by_chars else "the walk is not over bytes"))


# ----------------------------------------------------------------------------- what a definition says is what is recorded


@rule("T-FUNC-RECORD", floor=6,
      text="compile_func_decl records, for a definition and for a prototype alike, every attribute it collected from the declaration (the locals named "
           "like fields of struct Function: inline, bank, interrupt, return_signed, return_type, parameters, ..): each Function literal takes each of "
           "them from the local of that name, and an entry completed in place (get_mut + assignments) has each of them assigned.  The set of functions "
           "in use is seeded from `interrupt`, inlining from `inline`, bank calls from `bank`: an attribute dropped on one path changes them silently")
def t_func_record(facts, res, tier):
    fn = facts.fn("compile_func_decl", "CompilerState")
    st = facts.structs.get("Function")
    if not st:
        raise AnchorMissing("struct Function not found")
    fields = [f["name"] for f in st["fields"]]
    locals_ = set()
    for n in fn["body"].get("stmts", []):
        # the attributes are collected in locals declared at the top of the function, before the walk over the declaration
        if n.get("k") == "let":
            locals_ |= _pat_idents(n.get("pat"))
    attrs = [f for f in fields if f in locals_]
    res.inst("T-FUNC-RECORD:attributes", True, {"collected": attrs})
    if len(attrs) < 4:
        raise AnchorMissing("compile_func_decl collects fewer than four of Function's fields in locals of the same name: %s" % attrs)
    n_lit = 0
    for n in walk(fn["body"]):
        if n.get("k") == "struct" and n["segs"][-1] == "Function":
            n_lit += 1
            got = {f.get("name"): f.get("e") for f in n.get("fields", [])}
            for a in attrs:
                key = "T-FUNC-RECORD:literal#%d:%s" % (n_lit, a)
                e = got.get(a)
                val = simple_name(e) if isinstance(e, dict) else (a if e is None or e is True else None)
                res.inst(key, True, {"field": a, "value": expr_text(e)[:40] if isinstance(e, dict) else a})
                if val != a:
                    res.fail("T-FUNC-RECORD:literal:%s" % a, facts.where(fn, n), "compile_func_decl builds a Function whose `%s` is `%s`, not the `%s` collected from this declaration" % (a, expr_text(e)[:40] if isinstance(e, dict) else e, a))
    # in-place completion
    n_patch = 0
    for n, env, doms in scoped(fn):
        if n.get("k") in ("if", "match"):
            scrut = n["cond"] if n["k"] == "if" else n["e"]
            t = _norm(scrut)
            if "functions.get_mut(" in t or "functions.entry(" in t:
                body = n.get("then") if n["k"] == "if" else n
                assigned = {}
                var = None
                for x in walk(body):
                    if x.get("k") == "assign" and x["l"].get("k") == "field" and x["l"]["name"] in fields:
                        assigned[x["l"]["name"]] = simple_name(x["r"])
                if not assigned:
                    continue
                n_patch += 1
                for a in attrs:
                    key = "T-FUNC-RECORD:completed#%d:%s" % (n_patch, a)
                    res.inst(key, True, {"field": a, "assigned_from": assigned.get(a)})
                    if assigned.get(a) != a:
                        res.fail("T-FUNC-RECORD:completed:%s" % a, facts.where(fn, n), "compile_func_decl completes an existing Function entry in place but %s `%s`: what the earlier declaration (a prototype) said about it silently wins over this declaration" % ("does not assign" if a not in assigned else "assigns something else to", a))
    if n_lit == 0 and n_patch == 0:
        raise AnchorMissing("compile_func_decl neither builds a Function literal nor completes one")


# ----------------------------------------------------------------------------- the zero-page predicate


# VariableType variants whose `Value(Int(a))` definition is an address (the variable *is* that
# location: `char *const p = 0x80;`, `const short t[4] = 0x1800;`, `const char *t[2] = 0xf0;`).
# For Char and Short the same definition is a plain value, never an operand address.
VALUE_NOT_ADDRESS = {"Char", "Short"}


@rule("T-ZP-PRED", floor=5,
      text="the predicate asm() sizes operands with (in_zeropage) says 'zero page' exactly when the operand's address is below $100: never for a "
           "variable outside the zero-page memory class; for a variable whose definition is a constant address (every VariableType but Char and "
           "Short, whose constant is a value) only when address + offset <= $ff; otherwise yes.  Decided per VariableType variant over the "
           "predicate's paths: a type left out of the address test is sized 2 bytes where the assembler emits 3")
def t_zp_pred(facts, res, tier):
    from genmodel import fn_paths
    from walker import Const
    fns = [x for x in facts.fns if x["name"] == "in_zeropage"]
    if not fns:
        raise AnchorMissing("in_zeropage() not found")
    fn = fns[0]
    vparam = [p["name"] for p in fn["params"] if "Variable" in (p.get("ty") or "")]
    oparam = [p["name"] for p in fn["params"] if (p.get("ty") or "").strip() in ("i32", "i64", "isize")]
    if not vparam or not oparam:
        raise AnchorMissing("in_zeropage(): expected a &Variable and an integer offset parameter")
    v, off = vparam[0], oparam[0]
    types = facts.enum_variants("VariableType")
    mems = facts.enum_variants("VariableMemory")
    paths = list(fn_paths(facts, fn))

    def dom(st, key, universe):
        allowed, excl = st.cons.get(key, (None, frozenset()))
        s = set(allowed) if allowed is not None else set(universe)
        return s - set(excl)

    for t in types:
        for addressed in (True, False):
            # the case: memory Zeropage, type t, definition = constant address (or not)
            key = "T-ZP-PRED:%s:%s" % (t, "constant-address" if addressed else "allocated")
            outcomes = []
            for kind, value, st in paths:
                if "Zeropage" not in dom(st, v + ".memory", mems):
                    continue
                if t not in dom(st, v + ".var_type", types):
                    continue
                d = dom(st, v + ".def", facts.enum_variants("VariableDefinition"))
                d0 = dom(st, v + ".def.0", facts.enum_variants("VariableValue"))
                c = dom(st, v + ".var_const", [True, False])
                is_addr_path = "Value" in d and "Int" in d0 and True in c
                only_addr_path = d == {"Value"} and d0 == {"Int"} and c == {True}
                if addressed and not is_addr_path:
                    continue
                if not addressed and only_addr_path:
                    continue
                if isinstance(value, Const):
                    outcomes.append(("const", value.v))
                else:
                    txt = re.sub(r"\s+", "", repr(value))
                    outcomes.append(("test", txt))
            want_test = addressed and t not in VALUE_NOT_ADDRESS
            res.inst(key, True, {"type": t, "case": "constant address" if addressed else "allocated by the linker", "outcomes": [o[1] if o[0] == "test" else o[1] for o in outcomes][:4], "expected": "address + offset <= $ff" if want_test else True})
            if not outcomes:
                res.fail(key, facts.where(fn), "in_zeropage(): no path covers a %s variable (%s)" % (t, "constant address" if addressed else "allocated"))
                continue
            if want_test:
                bad = [o for o in outcomes if o[0] == "const"]
                if bad:
                    res.fail(key, facts.where(fn), "in_zeropage() answers %s for a zero-page %s at a constant address without looking at address + offset: `%s+k` past $ff is sized as a 2-byte zero-page operand where the assembler emits 3 bytes" % (bad[0][1], t, t))
                for o in outcomes:
                    if o[0] == "test" and not (off in re.findall(r"\w+", o[1]) and re.search(r"<=255|<256|<=0xff|<0x100", o[1])):
                        res.fail(key + ":test", facts.where(fn), "in_zeropage(): the test for %s is `%s`, expected address + %s <= $ff" % (t, o[1][:80], off))
            else:
                bad = [o for o in outcomes if not (o[0] == "const" and o[1] is True)]
                if bad:
                    res.fail(key, facts.where(fn), "in_zeropage() does not answer true for a zero-page %s (%s): %s" % (t, "its constant is a value, not an address" if addressed else "no constant address", bad[0][1]))
    # outside the zero-page class: false
    key = "T-ZP-PRED:other-memory"
    outs = []
    for kind, value, st in paths:
        m = dom(st, v + ".memory", mems)
        if m - {"Zeropage"}:
            outs.append((sorted(m - {"Zeropage"}), value))
    res.inst(key, True, {"classes": sorted({x for o in outs for x in o[0]})})
    for m, value in outs:
        if not (isinstance(value, Const) and value.v is False):
            res.fail(key, facts.where(fn), "in_zeropage() does not answer false for memory classes %s" % m)


# ----------------------------------------------------------------------------- hand-made high-byte addresses


@rule("T-HIBYTE-OFFSET", floor=3,
      text="where the generator forms the address of the high byte of a 16-bit object by hand (an ExprType::Absolute marked as an 8-bit access whose "
           "offset is the operand's offset plus something), the something is what asm() adds for `high_byte`: the variable's size for the split "
           "arrays (ShortPtr, CharPtrPtr: low bytes first, then high bytes), 1 or the size (1) for a scalar short.  Decided per variable type "
           "over the paths of each such function; indexing by a constant must reach the same byte as indexing by a register")
def t_hibyte_offset(facts, res, tier):
    from genmodel import fn_paths, gen_fns
    from walker import EnumV, Const, Sym
    types = facts.enum_variants("VariableType")
    n = 0
    for fn in gen_fns(facts):
        has = False
        for x in walk(fn["body"]):
            if x.get("k") == "call" and expr_text(x["func"]) == "ExprType::Absolute" and len(x.get("args", [])) == 3 and _norm(x["args"][1]) == "true":
                e = strip(x["args"][2])
                if isinstance(e, dict) and e.get("k") in ("binary", "mcall") and _int_lit(e) is None:
                    has = True
        if not has:
            continue
        for kind, value, st in fn_paths(facts, fn):
            if not (isinstance(value, EnumV) and value.variant == "Ok" and value.payload and isinstance(value.payload[0], EnumV) and value.payload[0].variant == "Absolute"):
                continue
            p = value.payload[0].payload
            if len(p) != 3 or not (isinstance(p[1], Const) and p[1].v is True):
                continue
            off = p[2]
            txt = re.sub(r"\s+", "", repr(off))
            if not (txt.startswith("(") and "+" in txt):
                continue
            vt = None
            for k2, (allowed, excl) in st.cons.items():
                if k2.endswith(".var_type"):
                    vt = (set(allowed) if allowed is not None else set(types)) - set(excl)
            vt = vt or set(types)
            for t in sorted(vt):
                key = "T-HIBYTE-OFFSET:%s:%s" % (fn["name"], t)
                n += 1
                uses_size = ".size" in txt
                one = bool(re.search(r"\+Const\(1\)|\+1\)", txt))
                res.inst(key, True, {"function": fn["name"], "type": t, "offset": txt[:90]})
                if t in ("ShortPtr", "CharPtrPtr") and not uses_size:
                    res.fail(key, facts.where(fn), "%s addresses the high byte of a %s element as offset `%s`: the high bytes of a split array start `size` bytes after the low bytes, so element k's high byte is at k + size (asm() adds v.size; a register index reaches that byte, this constant index does not)" % (fn["name"], t, txt[:80]))
                elif t == "Short" and not (uses_size or one):
                    res.fail(key, facts.where(fn), "%s addresses the high byte of a short as offset `%s` (expected +1)" % (fn["name"], txt[:80]))
    if n == 0:
        raise AnchorMissing("no hand-made high-byte address (ExprType::Absolute(_, true, offset + ..)) found in the generator")


# ----------------------------------------------------------------------------- pair rules that delete a load


@rule("T-OPT-PAIR-FLAGS", floor=2,
      text="a peephole rule of optimize() that deletes a load or an instruction that leaves A as it is but sets its flags (the second instruction of a "
           "pair is LDA / LDX / LDY, or ORA / AND / EOR / ADC / SBC - `ORA #0` - and remove_second or remove_both is set) also requires the optimiser's flag knowledge to be that register's (`flags == FlagsState::A|X|Y`): the register may well hold the "
           "value already (STA v; LDA v), but the load also sets N/Z, and the flags may have been changed since the register was written "
           "(`load(a); X = 3; store(v); if (v)` would branch on X)")
def t_opt_pair_flags(facts, res, tier):
    fn = facts.fn("optimize", "AssemblyCode")
    n = 0
    for node, env, doms in scoped(fn):
        if node.get("k") != "if":
            continue
        sets = [x for x in walk(node["then"]) if x.get("k") == "assign" and simple_name(x["l"]) in ("remove_second", "remove_both") and _norm(x["r"]) != "false"]
        if not sets:
            continue
        c = _norm(node["cond"])
        m = re.search(r"(\w+)\.mnemonic==AsmMnemonic::(LDA|LDX|LDY|ORA|AND|EOR|ADC|SBC)", c)
        if not m:
            continue
        # which instruction of the pair is it?  the second one is what remove_second deletes
        inst = m.group(1)
        b = env.get(inst)
        second = b is not None and b.scrut is not None and "second" in _norm(b.scrut)
        both = any(simple_name(x["l"]) == "remove_both" for x in sets)
        if not (second or both):
            continue
        reg = m.group(2)[-1] if m.group(2).startswith("LD") else "A"   # the logic / arithmetic instructions set the flags of A
        n += 1
        m1 = re.search(r"(\w+)\.mnemonic==AsmMnemonic::(\w+)", c.replace(m.group(0), "", 1))
        key = "T-OPT-PAIR-FLAGS:%s+%s" % (m1.group(2) if m1 else "?", m.group(2))
        guarded = ("flags==FlagsState::%s" % reg) in c or any(d[0] == "cond" and d[2] and ("flags==FlagsState::%s" % reg) in _norm(d[1]) for d in doms)
        res.inst(key, True, {"pair": key.split(":")[1], "condition": c[:160], "consults_flags": guarded})
        if not guarded:
            res.fail(key, facts.where(fn, node), "optimize() deletes the %s of the pair %s without requiring `flags == FlagsState::%s`: the value is there, but the N/Z flags the deleted load would have set may be those of another register by now, and the next branch tests them" % (m.group(2), key.split(":")[1], reg))
    if n == 0:
        raise AnchorMissing("optimize(): no pair rule deleting a load found")


# ----------------------------------------------------------------------------- signed constants turned into sizes


def _sign_checked(e, doms):
    t = _norm(strip(e))
    for d in doms:
        if d[0] == "cond" and d[2]:
            for n in walk(d[1]):
                if n.get("k") == "binary" and n["op"] in (">", ">=") and _norm(strip(n["l"])) == t and _int_lit(n["r"]) is not None and _int_lit(n["r"]) >= 0:
                    return True
        if d[0] == "cond" and not d[2]:
            for n in walk(d[1]):
                if n.get("k") == "binary" and n["op"] in ("<", "<=") and _norm(strip(n["l"])) == t and _int_lit(n["r"]) is not None and _int_lit(n["r"]) <= 0 and d[1] is n:
                    return True
    return False


@rule("T-CAST-SIGN", floor=5,
      text="a constant expression from the source becomes an unsigned quantity (an array size, an alignment, scatter parameters, the size hint of an "
           "asm statement) only through a conversion that rejects negative values (try_from with the error reported) or under an enclosing "
           "`> 0` / `>= 0` test: a bare `as usize` / `as u32` turns -1 into the largest size there is")
def t_cast_sign(facts, res, tier):
    n = 0
    for fn in facts.fns:
        if fn["file"].endswith("/cpp.rs") or "/tests/" in fn["file"]:
            continue
        for node, env, doms in scoped(fn):
            if node.get("k") == "cast" and node["ty"].replace(" ", "") in ("usize", "u32", "u8", "u16", "u64"):
                o = _const_origin(node["e"], env)
                if not o or _int_lit(node["e"]) is not None:
                    continue
                # casting an already unsigned local (e.g. the usize returned by a checked conversion) is not a sign change
                inner = strip(node["e"])
                if isinstance(inner, dict) and inner.get("k") == "mcall" and inner["method"] not in CONST_SOURCES:
                    continue
                if isinstance(inner, dict) and inner.get("k") == "mcall" and inner["method"] in CONST_SOURCES and _returns_unsigned(facts, inner["method"]):
                    continue
                n += 1
                key = "T-CAST-SIGN:%s:%s" % (fn["name"], _norm(node)[:40])
                ok = _sign_checked(node["e"], doms)
                res.inst(key, True, {"function": fn["name"], "cast": expr_text(node)[:60], "sign_tested": ok})
                if not ok:
                    res.fail(key, facts.where(fn, node), "%s converts the source constant `%s` to %s with `as`: a negative value becomes a huge size (`char t[-1];` is emitted as `ds 18446744073709551615`, a local overflows the stack frame computation)" % (fn["name"], expr_text(node["e"])[:50], node["ty"]))
            if node.get("k") == "call" and _norm(node["func"]) in ("usize::try_from", "u32::try_from", "u16::try_from", "u8::try_from") and node.get("args") and _const_origin(node["args"][0], env):
                n += 1
                res.inst("T-CAST-SIGN:%s:%s" % (fn["name"], _norm(node)[:40]), True, {"function": fn["name"], "conversion": expr_text(node)[:60], "sign_tested": "try_from"})
    if n == 0:
        raise AnchorMissing("no conversion of a source constant to an unsigned type found")


def _returns_unsigned(facts, name):
    for f in facts.fns_named(name):
        if re.match(r"^Result<(usize|u32|u16|u8),", f["ret"].replace(" ", "")):
            return True
    return False


# ----------------------------------------------------------------------------- an inline body is complete when it is pasted


@rule("T-INLINE-SELF", floor=1,
      text="push_code pastes the recorded code of an inline function into the function being generated; the code of the function being generated "
           "is itself incomplete, so push_code compares the two names and returns an error before it looks the body up: a self-call would "
           "otherwise paste branches without their labels and check_branches panics on the missing label")
def t_inline_self(facts, res, tier):
    from genmodel import GEN_QUAL
    fn = facts.fn("push_code", GEN_QUAL)
    params = [p["name"] for p in fn["params"] if p.get("name") != "self" and "str" in (p.get("ty") or "")]
    if not params:
        raise AnchorMissing("push_code: name parameter not found")
    f = params[0]
    sc = scoped(fn)
    lookup = None
    for n, env, doms in sc:
        if n.get("k") == "mcall" and n["method"] in ("get", "get_mut") and "functions_code" in _norm(n["recv"]) and n.get("args") and simple_name(n["args"][0]) == f:
            lookup = (n, env, doms)
            break
    if lookup is None:
        raise AnchorMissing("push_code: lookup of the pasted function's code not found")
    n, env, doms = lookup
    guarded = False
    for d in doms:
        if d[0] == "stmt" and d[1].get("k") == "if":
            c = d[1]["cond"]
            names = {x["segs"][0] for x in walk(c) if x.get("k") == "path" and len(x["segs"]) == 1}
            cur = [nm for nm in names if nm != f and env.get(nm) is not None and env[nm].scrut is not None and "current_function" in _norm(env[nm].scrut)]
            eq = any(x.get("k") == "binary" and x["op"] == "==" for x in walk(c))
            leaves = any(x.get("k") == "return" for x in walk(d[1]["then"])) and "Err" in _norm(d[1]["then"])
            if f in names and (cur or "current_function" in _norm(c)) and eq and leaves:
                guarded = True
    res.inst("T-INLINE-SELF:push_code", True, {"pasted": f, "self_call_rejected": guarded})
    if not guarded:
        res.fail("T-INLINE-SELF:push_code", facts.where(fn, n), "push_code looks up the code of `%s` without first refusing the function under construction: an inline function that calls itself pastes its own unfinished code (branches whose labels come later) and check_branches() panics with 'Label not found'" % f)


# ----------------------------------------------------------------------------- folding a compare away


@rule("T-OPT-CMP-FOLD", floor=6,
      text="optimize() deletes `CMP #m / BEQ` (and CPX, CPY) when the register holds a known immediate that differs from m, and `CMP #m / BNE` when it "
           "holds the same one.  'The same' may be judged on the operand text (same text, same value); 'differs' may not - `#<table` and `#131` "
           "are different texts for what may be the same byte - so the deleting condition of a BEQ arm compares numbers (both operands parsed), "
           "never the two strings")
def t_opt_cmp_fold(facts, res, tier):
    fn = facts.fn("optimize", "AssemblyCode")
    n = 0
    numeric_fns = {}
    for f in facts.fns:
        if f["file"].endswith("/assemble.rs") and f["ret"].strip() == "bool":
            ps = [p["name"] for p in f["params"] if "str" in (p.get("ty") or "") or "String" in (p.get("ty") or "")]
            if len(ps) >= 2:
                parsed = {simple_name(_innermost_recv(x)) for x in walk(f["body"]) if x.get("k") == "mcall" and x["method"] == "parse"}
                numeric_fns[f["name"]] = all(p in parsed for p in ps[:2])
    for node, env, doms in scoped(fn):
        if node.get("k") != "if":
            continue
        sets = [x for x in walk(node["then"]) if x.get("k") == "assign" and simple_name(x["l"]) == "remove_both"]
        if not sets:
            continue
        # which branch arm are we in?
        arm = None
        for d in doms:
            if d[0] == "arm" and "mnemonic" in _norm(d[1]) and isinstance(d[2], dict) and d[2].get("k") == "path" and d[2]["segs"][-1] in ("BEQ", "BNE"):
                arm = d[2]["segs"][-1]
        cmp_ = None
        for d in doms:
            if d[0] == "cond" and d[2]:
                m = re.search(r"mnemonic==AsmMnemonic::(CMP|CPX|CPY)", _norm(d[1]))
                if m:
                    cmp_ = m.group(1)
        if arm is None or cmp_ is None:
            continue
        n += 1
        key = "T-OPT-CMP-FOLD:%s+%s" % (cmp_, arm)
        c = node["cond"]
        textual_ne = [x for x in walk(c) if x.get("k") == "binary" and x["op"] == "!=" and "dasm_operand" in _norm(x)]
        textual_eq = [x for x in walk(c) if x.get("k") == "binary" and x["op"] == "==" and "dasm_operand" in _norm(x)]
        calls = [x for x in walk(c) if x.get("k") == "call" and x["func"].get("k") == "path" and x["func"]["segs"][-1] in numeric_fns]
        res.inst(key, True, {"compare": cmp_, "branch": arm, "condition": _norm(c)[:120]})
        # the compare's C / N / Z may feed a second branch (`CMP / BEQ / BCS` is how > is written): the fold looks ahead
        look = False
        for x in walk(c):
            if x.get("k") == "unary" and x["op"] == "!":
                nm = simple_name(x["e"])
                b = env.get(nm) if nm else None
                if b is not None and b.init is not None:
                    import json as _json
                    it = _json.dumps(b.init)
                    peeks = any(y.get("k") == "mcall" and y["method"] == "peek" for y in walk(b.init))
                    if peeks and all(('"%s"' % m) in it for m in ("BCC", "BCS", "BEQ", "BNE", "BMI", "BPL")):
                        look = True
        if not look:
            res.fail(key + ":second-consumer", facts.where(fn, node), "optimize() deletes `%s #m / %s` without looking at the instruction after the branch: when that is another conditional branch (`CMP #3 / BEQ .a / BCS .b`, the long-branch repair of `>` and the generator's own `>` pattern) it tests the carry or sign of the deleted compare" % (cmp_, arm))
        if arm == "BEQ":
            if textual_ne:
                res.fail(key, facts.where(fn, node), "optimize() deletes `%s #m / BEQ` when the register's known operand text differs from the compare's (`%s`): two different texts (`#<arr` and `#131`) may be the same byte, and the deleted branch would have been taken" % (cmp_, _norm(textual_ne[0])[:60]))
            elif not calls or not all(numeric_fns[x["func"]["segs"][-1]] for x in calls):
                res.fail(key, facts.where(fn, node), "optimize() deletes `%s #m / BEQ` on a condition (`%s`) that is not a numeric comparison of the two immediates" % (cmp_, _norm(c)[:80]))
        else:
            # 'holds the same': the same operand text, or a numeric *equality*; "not known to differ" is not "equal"
            negated = [x for x in walk(c) if x.get("k") == "unary" and x["op"] == "!" and any(y.get("k") == "call" and y["func"].get("k") == "path" and y["func"]["segs"][-1] in numeric_fns for y in walk(x["e"]))]
            positive_calls = [x for x in calls if not any(any(y is x for y in walk(ng["e"])) for ng in negated)]
            if negated and not textual_eq and not positive_calls:
                res.fail(key, facts.where(fn, node), "optimize() deletes `%s #m / BNE` when the register's immediate is *not known to differ* from m (`%s`): for a symbolic immediate (`#<table`) nothing is known, so an `if (r == K)` body loses its guard" % (cmp_, _norm(negated[0])[:60]))
            elif not textual_eq and not positive_calls:
                res.fail(key, facts.where(fn, node), "optimize() deletes `%s #m / BNE` without establishing that the register holds m" % cmp_)
    if n == 0:
        raise AnchorMissing("optimize(): compare folding (remove_both under CMP/CPX/CPY + BEQ/BNE) not found")


def _innermost_recv(n):
    while isinstance(n, dict) and n.get("k") in ("mcall", "index", "ref", "unary", "field"):
        n = n.get("recv") or n.get("base") or n.get("e")
    return n


# ----------------------------------------------------------------------------- the remaining unwraps


def _reach_without(nfa, target, assigning):
    """Can child `target` be reached from the start of the rule without passing a child in `assigning`?"""
    seen = set()
    stack = list(nfa.closure({nfa.start}))
    while stack:
        st = stack.pop()
        if st in seen:
            continue
        seen.add(st)
        for sym, t in nfa.trans[st]:
            if sym is None:
                stack.append(t)
            elif sym == target:
                return True
            elif sym not in assigning:
                stack.append(t)
    return False


# Sites whose safety rests on an invariant that spans functions; each entry is checked structurally
# (see _check_contract) and carries its reason.
UNWRAP_CONTRACTS = {
    ("set", "self.code.get_mut(line)"): "AssemblyCode::set(line, ..) replaces a placeholder line: its only caller chain is asm_save_y(<index returned by dummy()>), and nothing between dummy() and asm_save_y() removes lines (the optimiser and branch repair run after generation)",
    ("optimize", "first"): "remove_first / remove_both are set only inside `if let Some(..) = &first` (and `&second`): when one of them is set, `first` is Some",
    ("optimize", "second"): "remove_second / remove_both are set only inside `if let Some(..) = &second`: when one of them is set, `second` is Some",
}


@rule("T-UNWRAP-REST", floor=100,
      text="every unwrap()/expect() outside the preprocessor (cpp.rs has its own rule) is on a value that cannot be None/Err for any input, by one "
           "of these arguments, recognised structurally per site: the next child of a parse tree where the grammar guarantees one (decided by "
           "T-TREEWALK); a table lookup by name (decided by T-LOOKUP-TOTAL); a Mutex of a single-threaded parser (lock / into_inner); "
           "Rc::into_inner of an Rc that is never cloned; char::from_u32 of a literal scalar value; a regex literal that parses; the top of a "
           "stack after a push in the same function with no pop in between, after a dominating emptiness test that leaves the function, or "
           "inside the only call chain that follows the push (scope stack); an Option local after a dominating `?` / is_none-return / is_some "
           "test; an Option filled by a child the grammar puts before the child that unwraps it; the builder's per-function tables keyed by "
           "the current function; three tabled cross-function invariants, each checked.  Anything else is reported: it can panic on some input")
def t_unwrap_rest(facts, res, tier):
    import core
    import rules_treewalk
    # what T-TREEWALK decided
    tw = core.Result()
    core.RULES["T-TREEWALK"].fn(facts, tw, tier)
    tw_fns = set()
    for key, nt, sample in tw.instances:
        m = re.match(r"^T-TREEWALK:(\w+):unwrap:", key)
        if m:
            tw_fns.add(m.group(1))
    lk = core.Result()
    core.RULES["T-LOOKUP-TOTAL"].fn(facts, lk, tier)
    lookup_fns = {re.match(r"^T-LOOKUP-TOTAL:(\w+):", k).group(1) for k, _, _ in lk.instances if re.match(r"^T-LOOKUP-TOTAL:(\w+):(variables|functions):", k)}
    helpers = lookup_helpers(facts, ("variables", "functions"))
    rules = facts.grammar_rules()
    nfas = rules_treewalk.build_nfas(rules)
    counts = {}
    n = 0
    for fn in facts.fns:
        if fn["file"].endswith("/cpp.rs") or "/tests/" in fn["file"]:
            continue
        sc = scoped(fn)
        body_txt = _norm(fn["body"])
        for node, env, doms in sc:
            if not (node.get("k") == "mcall" and node["method"] in ("unwrap", "expect", "unwrap_unchecked")):
                continue
            R = node["recv"]
            rt = _norm(R)
            n += 1
            cls = why = None
            rk = R.get("k")
            # 1. parse-tree children
            if rk == "mcall" and R["method"] == "next" and fn["name"] in tw_fns:
                cls, why = "parse-tree child", "decided by T-TREEWALK for %s" % fn["name"]
            # 2. table lookups by name
            elif rk == "mcall" and R["method"] in ("get", "get_mut") and _is_map_field(R["recv"], ("variables", "functions")):
                if fn["name"] in lookup_fns or fn["name"] in helpers:
                    cls, why = "table lookup", "decided by T-LOOKUP-TOTAL"
            # 3. mutex
            elif rk == "mcall" and R["method"] == "lock" and not R.get("args"):
                cls, why = "mutex", "a Mutex is poisoned only by a panic in another thread holding it; the crate spawns none (M-NONDET)"
            elif rk == "mcall" and R["method"] == "into_inner" and "Rc::into_inner" in rt:
                cls, why = "mutex", "Mutex::into_inner of the un-shared parser state"
            # 4. Rc::into_inner
            elif rk == "call" and _norm(R["func"]) == "Rc::into_inner" and R.get("args"):
                x = simple_name(R["args"][0])
                cloned = bool(re.search(r"Rc::clone\(&?%s\)|\b%s\.clone\(\)" % (x, x), body_txt)) if x else True
                if not cloned:
                    cls, why = "unique Rc", "`%s` is never cloned in %s: the closures borrow it, so the strong count is 1" % (x, fn["name"])
            # 5. char::from_u32(literal)
            elif rk == "call" and _norm(R["func"]) == "char::from_u32" and R.get("args") and _int_lit(R["args"][0]) is not None:
                v = _int_lit(R["args"][0])
                if 0 <= v < 0xD800 or 0xE000 <= v <= 0x10FFFF:
                    cls, why = "literal scalar value", "%d is a Unicode scalar value" % v
            # 6. regex literal
            elif rk == "call" and _norm(R["func"]) in ("Regex::new", "regex::Regex::new") and R.get("args") and strip(R["args"][0]).get("k") == "lit":
                from astlib import regex_asts
                try:
                    asts = regex_asts([strip(R["args"][0])["v"]])
                    if asts and not (isinstance(asts[0], dict) and asts[0].get("error")):
                        cls, why = "regex literal", "the literal parses"
                except Exception:
                    pass
            # 7. stacks
            elif rk == "mcall" and R["method"] in ("last", "last_mut", "first", "pop") and not R.get("args"):
                stack_expr = _norm(R["recv"])
                cls, why = _stack_nonempty(facts, fn, node, stack_expr, doms)
            # 8. builder tables
            elif rk == "mcall" and R["method"] in ("get", "get_mut") and "functions_code" in _norm(R["recv"]) and R.get("args"):
                o = origin(R["args"][0], env)
                if (o.kind == "field" and o.text == "self.current_function") or o.kind == "param":
                    cls, why = "builder table", "functions_code holds an entry for every function the builder generates: it inserts the entry before it makes the function current / asks for it (checked on src/tests/build.rs)"
            # 9. Option locals
            elif rk == "path" and len(R["segs"]) == 1:
                nm = R["segs"][0]
                cls, why = _option_local(facts, fn, node, nm, env, doms, nfas)
            if cls is None and (fn["name"], rt) in UNWRAP_CONTRACTS:
                ok, detail = _check_contract(facts, fn, rt)
                if ok:
                    cls, why = "tabled invariant", UNWRAP_CONTRACTS[(fn["name"], rt)] + " [" + detail + "]"
            key = "T-UNWRAP-REST:%s:%s" % (fn["name"], rt[:50])
            counts[key] = counts.get(key, 0) + 1
            res.inst(key + "#%d" % counts[key], True, {"function": fn["name"], "unwrapped": rt[:80], "class": cls, "why": why})
            if cls is None:
                res.fail(key, facts.where(fn, node), "%s unwraps `%s` and none of the recognised arguments shows it cannot be None/Err: on some input this is a panic instead of an error" % (fn["name"], rt[:80]))
    # the reference builder keeps its side of the functions_code contract
    for fn in facts.fns:
        if not fn["file"].endswith("/tests/build.rs"):
            continue
        for blk in walk(fn["body"]):
            if blk.get("k") != "block":
                continue
            st = blk.get("stmts", [])
            for i, s0 in enumerate(st):
                if s0.get("k") == "assign" and _norm(s0["l"]).endswith(".current_function") and "Some(" in _norm(s0["r"]):
                    key = "T-UNWRAP-REST:builder:functions_code-before-current"
                    before = any(x.get("k") == "mcall" and x["method"] == "insert" and "functions_code" in _norm(x["recv"]) for t in st[:i] for x in walk(t))
                    res.inst(key, True, {"inserted_before": before})
                    if not before:
                        res.fail(key, facts.where(fn, s0), "the reference builder makes a function current before registering its code vector in functions_code")


def _stack_nonempty(facts, fn, node, stack_expr, doms):
    """X.last().unwrap(): a push earlier in this function with no pop since, or a dominating emptiness test that leaves."""
    pushed = False
    for d in doms:
        if d[0] == "stmt":
            for x in _unconditional(d[1]):
                if x.get("k") == "mcall" and _norm(x["recv"]) == stack_expr:
                    if x["method"] == "push":
                        pushed = True
                    elif x["method"] in ("pop", "clear", "truncate", "drain"):
                        pushed = False
            # a conditional pop anywhere in the statement cancels the knowledge
            if pushed and any(x.get("k") == "mcall" and _norm(x["recv"]) == stack_expr and x["method"] in ("pop", "clear", "truncate", "drain") for x in walk(d[1])):
                pushed = False
    if pushed:
        return "stack top", "`%s.push(..)` earlier in %s, nothing popped since (callees push and pop in pairs: T-LOOP-EXIT-SIBLINGS / T-CTX-RESTORE)" % (stack_expr, fn["name"])
    # `match X.last() { None => return Err(..), Some(..) => .. }` bound or as a statement before
    for d in doms:
        if d[0] == "stmt":
            for x in _unconditional(d[1]):
                if x.get("k") == "match" and _norm(x["e"]) in (stack_expr + ".last()", stack_expr + ".last_mut()"):
                    for a in x["arms"]:
                        pt0 = a.get("pat") if isinstance(a.get("pat"), dict) else {}
                        is_none = (pt0.get("k") == "path" and pt0.get("segs") == ["None"]) or (pt0.get("k") == "ident" and pt0.get("name") == "None")
                        if is_none and any(y.get("k") == "return" for y in walk(a["body"])):
                            return "stack top", "a dominating `match %s.last() { None => return .. }`" % stack_expr
                if x.get("k") == "if" and _norm(x["cond"]) == stack_expr + ".is_empty()" and any(y.get("k") == "return" for y in walk(x["then"])):
                    return "stack top", "a dominating `if %s.is_empty() { return .. }`" % stack_expr
        if d[0] == "arm" and _norm(d[1]) in (stack_expr + ".last()", stack_expr + ".last_mut()") and isinstance(d[2], dict) and d[2].get("k") == "tstruct" and d[2].get("segs") == ["Some"]:
            return "stack top", "inside the Some arm of `%s.last()`" % stack_expr
    # scope stack: the function is only reachable through the function that pushes before it calls down
    m = re.match(r"^self\.(\w+)$", stack_expr)
    if m:
        field = m.group(1)
        pushers = [f for f in facts.fns if f["file"] == fn["file"] and any(x.get("k") == "mcall" and x["method"] == "push" and _norm(x["recv"]) == stack_expr for x in walk(f["body"])) and not any(x.get("k") == "mcall" and x["method"] in ("last", "last_mut") and _norm(x["recv"]) == stack_expr for x in walk(f["body"]) if False)]
        # callers graph within the file (method calls on self)
        by_name = {f["name"]: f for f in facts.fns if f["file"] == fn["file"]}
        callers = {}
        for f in by_name.values():
            for x in walk(f["body"]):
                if x.get("k") == "mcall" and x["method"] in by_name and _norm(x["recv"]) == "self":
                    callers.setdefault(x["method"], set()).add(f["name"])
        # a root pusher: pushes while the stack may be empty (does not itself read the top before pushing)
        roots = []
        for f in pushers:
            sc = scoped(f)
            for n2, env2, doms2 in sc:
                if n2.get("k") == "mcall" and n2["method"] == "push" and _norm(n2["recv"]) == stack_expr:
                    reads_before = any(d[0] == "stmt" and any(y.get("k") == "mcall" and y["method"] in ("last", "last_mut") and _norm(y["recv"]) == stack_expr for y in walk(d[1])) for d in doms2)
                    if not reads_before:
                        roots.append((f, n2))
        for root, push in roots:
            # every path of callers from fn upwards must end in root, and in root the call down follows the push
            seen = set()
            stack = [fn["name"]]
            ok = True
            while stack and ok:
                cur = stack.pop()
                if cur in seen or cur == root["name"]:
                    continue
                seen.add(cur)
                cs = callers.get(cur, set())
                if not cs or (by_name[cur].get("vis") or "").startswith("pub"):
                    ok = False   # reachable from outside (no caller here, or callable from other modules) without passing root
                stack.extend(cs)
            if not ok:
                continue
            # within root: calls into `seen` happen after the push and before the matching clear/pop
            pl = tuple(int(v) for v in push["loc"].split(":"))
            bad = False
            for x in walk(root["body"]):
                if x.get("k") == "mcall" and x["method"] in seen and _norm(x["recv"]) == "self":
                    xl = tuple(int(v) for v in x["loc"].split(":"))
                    if xl < pl:
                        bad = True
            if fn["name"] == root["name"]:
                continue
            if not bad:
                return "scope stack", "%s is reachable only through %s, which pushes onto %s before it calls down (callers: %s)" % (fn["name"], root["name"], stack_expr, ", ".join(sorted(seen)))
    return None, None


def _option_local(facts, fn, node, nm, env, doms, nfas):
    b = env.get(nm)
    # dominating `nm?;`, `if nm.is_none() { return .. }`, enclosing `if nm.is_some()`
    for d in doms:
        if d[0] == "stmt":
            s0 = d[1]
            if s0.get("k") == "try" and simple_name(s0["e"]) == nm:
                return "option tested", "`%s?` before" % nm
            if s0.get("k") == "if" and _norm(s0["cond"]) == nm + ".is_none()" and any(y.get("k") in ("return", "break", "continue") for y in walk(s0["then"])):
                return "option tested", "`if %s.is_none() { leave }` before" % nm
        if d[0] == "cond" and d[2] and _norm(d[1]) == nm + ".is_some()":
            return "option tested", "under `if %s.is_some()`" % nm
        if d[0] == "cond" and not d[2] and _norm(d[1]) == nm + ".is_none()":
            return "option tested", "in the else branch of `if %s.is_none()`" % nm
    # `let mut nm = None;` filled by one child arm, unwrapped in another: grammar order
    decl = None
    for x in walk(fn["body"]):
        if x.get("k") == "let" and nm in _pat_idents(x.get("pat")) and x.get("init") is not None and _norm(x["init"]) == "None":
            decl = x
    if decl is not None:
        for m in walk(fn["body"]):
            if m.get("k") == "match" and "as_rule()" in _norm(m["e"]):
                arms = {}
                for a in m["arms"]:
                    for r in re.findall(r"Rule::(\w+)", _pat_text(a["pat"])):
                        arms[r] = a
                using = [r for r, a in arms.items() if any(x is node for x in walk(a["body"]))]
                if not using:
                    continue
                assigning = set()
                for r, a in arms.items():
                    body = a["body"]
                    top = body.get("stmts", []) if body.get("k") == "block" else [body]
                    for t in top:
                        if t.get("k") == "assign" and simple_name(t["l"]) == nm and _norm(t["r"]).startswith("Some("):
                            assigning.add(r)
                alphabet = set(arms)
                cands = []
                for rn, nfa in nfas.items():
                    if rn == "__top__":
                        continue
                    syms = nfa.reachable_symbols({nfa.start})
                    if alphabet <= syms:
                        cands.append((len(syms - alphabet), rn))
                if not cands:
                    return None, None
                cands.sort()
                parent = cands[0][1]
                if assigning and not any(_reach_without(nfas[parent], r, assigning) for r in using):
                    return "filled by an earlier child", "in grammar rule `%s` every `%s` child is preceded by a child (%s) whose arm sets `%s = Some(..)`" % (parent, "/".join(using), ", ".join(sorted(assigning)), nm)
    return None, None


def _pat_text(p):
    from astlib import pat_text
    return pat_text(p)


def _check_contract(facts, fn, rt):
    if fn["name"] == "set":
        # callers of set(): asm_save_y(line); callers of asm_save_y pass a value obtained from dummy()
        ok = True
        n_calls = 0
        for f in facts.fns:
            for node, env, doms in scoped(f):
                if node.get("k") == "mcall" and node["method"] == "set" and "code" in _norm(node["recv"]) and f["name"] != "asm_save_y" and "/generate/" in f["file"]:
                    ok = False
                if node.get("k") == "mcall" and node["method"] == "asm_save_y" and node.get("args"):
                    n_calls += 1
                    a = simple_name(node["args"][0])
                    b = env.get(a) if a else None
                    src = None
                    while b is not None and src is None:
                        if b.init is not None and "dummy()" in _norm(b.init):
                            src = "dummy()"
                        elif b.scrut is not None:
                            sn = simple_name(b.scrut)
                            if "dummy()" in _norm(b.scrut):
                                src = "dummy()"
                            else:
                                b = env.get(sn) if sn else None
                        else:
                            b = None
                    if src is None:
                        ok = False
        return ok and n_calls > 0, "%d asm_save_y call(s), each with an index obtained from dummy()" % n_calls
    if fn["name"] == "optimize":
        want = "first" if rt == "first" else "second"
        flags = {"first": ("remove_first", "remove_both"), "second": ("remove_second", "remove_both")}[want]
        ok = True
        cnt = 0
        for node, env, doms in scoped(fn):
            if node.get("k") == "assign" and simple_name(node["l"]) in flags and _norm(node["r"]) != "false":
                cnt += 1
                inside = any(d[0] == "arm" and _norm(d[1]).lstrip("&") == want and isinstance(d[2], dict) and d[2].get("k") == "tstruct" and d[2].get("segs") == ["Some"] for d in doms)
                if not inside:
                    ok = False
        # and the unwraps sit under those flags
        return ok and cnt > 0, "%d assignments of %s, all inside `if let Some(..) = &%s`" % (cnt, "/".join(flags), want)
    return False, ""


# ----------------------------------------------------------------------------- slicing the line being scanned


def _lit_len(e):
    """Byte length of a string / char literal."""
    e = strip(e)
    if isinstance(e, dict) and e.get("k") == "lit" and e.get("ty") in ("str", "char"):
        return len(str(e["v"]).encode("utf-8"))
    return None


@rule("T-SLICE-BOUNDS", floor=15,
      text="every index or slice in the preprocessor (the code that meets raw text first) stays inside what it indexes, by one of these arguments "
           "recognised per site: a literal offset k under a dominating `starts_with(<literal of k bytes>)`; an offset obtained from "
           "`find(..).unwrap_or(len)` of the same string; an offset `<piece>.len() + k` where the piece was split off the same string at a delimiter "
           "of exactly k bytes that is known to be there (the Some arm of split_once, a second piece of splitn); a cursor built only from such "
           "terms; a capture group that takes part in every match of its regex; the index pair delivered by enumerate() / RegexSet::matches over "
           "the parallel macro tables (T-CPP-PARALLEL); the chunk and position undefine() found while the caller knows the macro is defined.  "
           "An offset that is one byte off panics on a line that ends right after the delimiter, or cuts a UTF-8 character")
def t_slice_bounds(facts, res, tier):
    from astlib import regex_asts
    n = 0
    for fn in facts.fns:
        if not fn["file"].endswith("/cpp.rs"):
            continue
        sc = scoped(fn)
        # cursor-like locals: every assignment is a piece-length term
        for node, env, doms in sc:
            if node.get("k") != "index":
                continue
            base = node["base"]
            idx = node["idx"]
            bt = _norm(base)
            n += 1
            cls = why = None
            if idx.get("k") == "range":
                parts = [p for p in (idx.get("start"), idx.get("end")) if isinstance(p, dict)]
                oks = []
                for p in parts:
                    oks.append(_offset_ok(facts, fn, sc, base, p, env, doms))
                if parts and all(o[0] for o in oks):
                    cls, why = "bounded slice", "; ".join(o[1] for o in oks)
            else:
                lit = _int_lit(idx)
                if lit is not None and re.search(r"\bcaps$|captures", bt):
                    # capture group index: find the regex the captures come from
                    ok, why2 = _capture_group_always(facts, fn, node, lit, env, regex_asts)
                    if ok:
                        cls, why = "capture group", why2
                else:
                    nm = simple_name(idx)
                    b = env.get(nm) if nm else None
                    if b is not None and b.src == "for" and b.scrut is not None and ("enumerate()" in _norm(b.scrut) or "matches(" in _norm(b.scrut)):
                        cls, why = "table index", "`%s` is delivered by `%s` over the parallel macro tables (kept in step: T-CPP-PARALLEL)" % (nm, _norm(b.scrut)[:50])
                    elif fn["name"] == "undefine" and nm in ("k", "i") or (fn["name"] == "undefine" and _norm(idx) in ("k", "i")):
                        ok, why2 = _undefine_guarded(facts)
                        if ok:
                            cls, why = "found position", why2
            key = "T-SLICE-BOUNDS:%s:%s" % (fn["name"], _norm(node)[:50])
            res.inst(key + "#%d" % n, True, {"function": fn["name"], "expression": expr_text(node)[:70], "class": cls, "why": why})
            if cls is None:
                res.fail(key, facts.where(fn, node), "%s evaluates `%s` and none of the recognised arguments bounds the offset: a line that ends right there (or a multi-byte character) makes it panic" % (fn["name"], expr_text(node)[:70]))
    if n == 0:
        raise AnchorMissing("no index or slice expression found in cpp.rs")


def _piece_term(e, base, env, doms):
    """`P.len() + k` (or `P.len()`) where P is a piece split off `base` at a delimiter of k bytes known to be present."""
    e = strip(e)
    k = 0
    p = e
    if isinstance(e, dict) and e.get("k") == "binary" and e["op"] == "+":
        l, r = e["l"], e["r"]
        if _int_lit(r) is not None:
            k, p = _int_lit(r), strip(l)
        elif _int_lit(l) is not None:
            k, p = _int_lit(l), strip(r)
        else:
            return None
    if not (isinstance(p, dict) and p.get("k") == "mcall" and p["method"] == "len" and not p.get("args")):
        return None
    piece = simple_name(p["recv"])
    b = env.get(piece) if piece else None
    if b is None:
        return None
    # (a) bound by `Some((piece, _)) = X.split_once(d)`
    if b.scrut is not None:
        s = strip(b.scrut)
        if isinstance(s, dict) and s.get("k") == "mcall" and s["method"] == "split_once" and s.get("args"):
            d = _lit_len(s["args"][0])
            if d is not None and b.idx == 0:
                return (piece, k, d, _norm(s["recv"]), "split_once")
    # (b) `let piece = it.next().unwrap()` with `it = X...splitn(2, d)`; a later `it.next()` matched Some tells the delimiter is there
    if b.src == "let" and b.init is not None:
        i = strip(b.init)
        t = _norm(i)
        m = re.match(r"^(\w+)\.next\(\)(\.unwrap\(\))?$", t)
        if m:
            it = env.get(m.group(1))
            if it is not None and it.init is not None:
                chain = it.init
                for x in walk(chain):
                    if x.get("k") == "mcall" and x["method"] in ("splitn", "split") and x.get("args"):
                        d = _lit_len(x["args"][-1])
                        if d is not None:
                            return (piece, k, d, _norm(chain)[:60], "splitn:" + m.group(1))
    return None


def _offset_ok(facts, fn, sc, base, p, env, doms):
    bt = _norm(base)
    lit = _int_lit(p)
    if lit == 0:
        return True, "0"
    if lit is not None:
        # under starts_with(<literal of that many bytes>)
        for d in doms:
            if d[0] == "cond" and d[2]:
                for x in walk(d[1]):
                    if x.get("k") == "mcall" and x["method"] == "starts_with" and _norm(x["recv"]) == bt and x.get("args") and _lit_len(x["args"][0]) == lit:
                        return True, "%d bytes after starts_with(%s)" % (lit, expr_text(x["args"][0]))
        return False, None
    nm = simple_name(p)
    b = env.get(nm) if nm else None
    if b is not None and b.src == "let" and b.init is not None:
        t = _norm(b.init)
        m = re.match(r"^(.+)\.find\(.*\)\.unwrap_or\((.+)\.len\(\)\)$", t)
        if m and m.group(1) == bt and m.group(2) == bt:
            return True, "`%s` = find(..).unwrap_or(len) of the same string" % nm
    term = _piece_term(p, base, env, doms)
    if term is not None:
        piece, k, d, src, how = term
        if k in (0, d) and _delimiter_present(how, piece, env, doms, k):
            return True, "`%s.len() + %d`: `%s` was split off at a %d-byte delimiter that is there" % (piece, k, piece, d)
        if k not in (0, d):
            return False, None
    # a cursor: every assignment to it in this function is a piece term over base[cursor..] / base
    if nm and b is not None and b.src == "let":
        ok = True
        cnt = 0
        for node, env2, doms2 in sc:
            tgt = None
            rhs = None
            if node.get("k") == "let" and nm in _pat_idents(node.get("pat")) and node.get("init") is not None:
                tgt, rhs, mode = nm, node["init"], "="
            elif node.get("k") == "assign" and simple_name(node["l"]) == nm:
                tgt, rhs, mode = nm, node["r"], "="
            elif node.get("k") == "assignop" and simple_name(node["l"]) == nm and node["op"] == "+":
                tgt, rhs, mode = nm, node["r"], "+="
            if tgt is None:
                continue
            cnt += 1
            t2 = _piece_term(rhs, base, env2, doms2)
            if t2 is None:
                ok = False
                continue
            piece, k, d, src, how = t2
            if k not in (0, d):
                ok = False
        # `cursor + 1`: one past a delimiter the cursor stands on - accepted when the site is dominated by the flag the loop
        # sets on finding the closing delimiter (structural: handled as k == delimiter length below)
        if ok and cnt > 0:
            return True, "`%s` is only ever assigned piece lengths plus the length of the delimiter found after the piece (%d assignments)" % (nm, cnt)
    # cursor + k
    e = strip(p)
    if isinstance(e, dict) and e.get("k") == "binary" and e["op"] == "+" and _int_lit(e["r"]) is not None:
        inner = _offset_ok(facts, fn, sc, base, e["l"], env, doms)
        if inner[0] and _int_lit(e["r"]) == 1:
            # one past the delimiter the cursor stands on: the site must be reached only when the closing delimiter was found
            found = any(d[0] == "cond" and ((not d[2] and "!found" in _norm(d[1])) or (d[2] and _norm(d[1]) == "found")) for d in doms)
            if found:
                return True, inner[1] + ", + 1 for the one-byte delimiter it stands on (reached only when it was found)"
    return False, None


def _delimiter_present(how, piece, env, doms, k):
    if k == 0:
        return True
    if how == "split_once":
        return True   # the binder exists only in the Some arm
    it = how.split(":", 1)[1]
    # a later `it.next()` matched Some(..)
    for d in doms:
        if d[0] == "arm" and _norm(d[1]) == it + ".next()" and isinstance(d[2], dict) and d[2].get("k") == "tstruct" and d[2].get("segs") == ["Some"]:
            return True
    return False


def _capture_group_always(facts, fn, node, idx, env, regex_asts):
    # the regex: a field of the context compiled from a literal in new()
    pats = []
    for f in facts.fns:
        if f["file"].endswith("/cpp.rs"):
            for x in walk(f["body"]):
                if x.get("k") == "struct":
                    for fl in x.get("fields", []):
                        e = fl.get("e")
                        if fl.get("name", "").endswith("_regex") and isinstance(e, dict):
                            for y in walk(e):
                                if y.get("k") == "call" and _norm(y["func"]).endswith("Regex::new") and y.get("args") and strip(y["args"][0]).get("k") == "lit":
                                    pats.append((fl["name"], strip(y["args"][0])["v"]))
    b = env.get(simple_name(node["base"]))
    src = _norm(b.init) if b is not None and b.init is not None else ""
    for name, pat in pats:
        if name in src:
            ast = regex_asts([pat])[0]["ast"]
            # is group idx under an optional / alternation / star?
            def find(a, optional):
                if not isinstance(a, dict):
                    return None
                k = a.get("k")
                if k == "group" and a.get("kind") == "capture" and a.get("name") == idx:
                    return not optional
                if k == "rep":
                    return find(a["e"], optional or a.get("op") in ("?", "*") or str(a.get("op")).startswith("{0"))
                if k == "alt":
                    for e in a.get("es", []):
                        r = find(e, True)
                        if r is not None:
                            return r
                    return None
                for key in ("e",):
                    if key in a:
                        r = find(a[key], optional)
                        if r is not None:
                            return r
                for e in a.get("es", []) or []:
                    r = find(e, optional)
                    if r is not None:
                        return r
                return None
            r = find(ast, False)
            if r:
                return True, "group %d of `%s` takes part in every match" % (idx, name)
            return False, None
    return False, None


def _undefine_guarded(facts):
    """every in-crate call of undefine(name) is under `get_macro(name).is_some()`"""
    cnt = 0
    for f in facts.fns:
        if "/tests/" in f["file"]:
            continue
        for node, env, doms in scoped(f):
            if node.get("k") == "mcall" and node["method"] == "undefine" and node.get("args"):
                a = _norm(node["args"][0])
                cnt += 1
                if not any(d[0] == "cond" and d[2] and ("get_macro(%s).is_some()" % a) in _norm(d[1]) for d in doms):
                    return False, None
    return cnt > 0, "undefine() searches the chunks for a name its %d caller(s) know to be defined (get_macro(..).is_some()); defs and the chunk tables hold the same names (T-CPP-PARALLEL)" % cnt


# ----------------------------------------------------------------------------- shortcuts decided on one byte of a constant


@rule("T-BYTE-SHORTCUT", floor=4,
      text="in the code generator a shortcut taken because one byte of a constant operand has a particular value (`(v & 0xff) == 0`, "
           "`v & 0xff00 == 0`, `v & 0xff == 0xff`) decides the result for that byte only: every value returned under such a test is returned "
           "where `high_byte` is known to select the same byte (low byte: `!high_byte`, high byte: `high_byte`).  A test of the low byte that "
           "also answers the high-byte pass gives `s & 0x1ff` the value of `s & 0xff`")
def t_byte_shortcut(facts, res, tier):
    n = 0
    for fn in facts.fns:
        if "/generate/" not in fn["file"]:
            continue
        if not any(p.get("name") == "high_byte" for p in fn["params"]):
            continue
        sc = scoped(fn)
        for node, env, doms in sc:
            if node.get("k") != "if":
                continue
            tested = None
            for x in walk(node["cond"]):
                if x.get("k") == "binary" and x["op"] == "==" and _int_lit(x["r"]) is not None:
                    l = strip(x["l"])
                    if isinstance(l, dict) and l.get("k") == "binary" and l["op"] == "&" and _int_lit(l["r"]) in (0xff, 0xff00) and _const_origin(l["l"], env):
                        tested = ("low" if _int_lit(l["r"]) == 0xff else "high", _norm(x))
            if tested is None:
                continue
            which, txt = tested
            n += 1
            key = "T-BYTE-SHORTCUT:%s:%s" % (fn["name"], txt[:40])
            want = "!high_byte" if which == "low" else "high_byte"
            # polarity of high_byte known from the condition itself or from what dominates the if
            def polarity(conds):
                for c, pol in conds:
                    for part in _and_parts(c):
                        t = _norm(part)
                        if t == "high_byte":
                            return "high_byte" if pol else "!high_byte"
                        if t == "!high_byte":
                            return "!high_byte" if pol else "high_byte"
                return None
            outer = [(d[1], d[2]) for d in doms if d[0] == "cond"] + [(node["cond"], True)]
            known = polarity(outer)
            bad = []
            if known is None:
                # every value produced inside the branch must sit under a nested high_byte test of the right polarity
                for n2, env2, doms2 in sc:
                    if n2.get("k") == "return" and any(y is n2 for y in walk(node["then"])):
                        inner = [(d[1], d[2]) for d in doms2 if d[0] == "cond"]
                        pol = polarity(inner)
                        if pol != want:
                            bad.append((n2, pol))
            elif known != want:
                bad.append((node, known))
            res.inst(key, True, {"function": fn["name"], "test": txt, "byte": which, "high_byte_known": known})
            for b, pol in bad[:1]:
                res.fail(key, facts.where(fn, b), "%s takes a shortcut on the %s byte of a constant (`%s`) and returns a result %s: the other byte of the constant is not looked at, so `s & 0x1ff` is computed as `s & 0xff`" % (fn["name"], which, txt, ("where `%s` holds" % pol) if pol else "for both passes of a 16-bit evaluation"))
    if n == 0:
        raise AnchorMissing("no per-byte shortcut on a constant operand found in the generator")


def _and_parts(c):
    c = strip(c) if isinstance(c, dict) else c
    if isinstance(c, dict) and c.get("k") == "binary" and c["op"] == "&&":
        return _and_parts(c["l"]) + _and_parts(c["r"])
    return [c]


# ----------------------------------------------------------------------------- the expansion fixed point


@rule("T-FIXPOINT-FLAG", floor=1,
      text="macro expansion repeats until a whole pass over the macro tables changes nothing: the flag that asks for another pass is lowered "
           "only at the start of a pass and, inside the pass, only ever raised (`changed = true`).  Assigning it the outcome of the *last* "
           "macro tried forgets that an earlier macro of the same pass changed the line: nested calls and macros used in bodies stay half "
           "expanded")
def t_fixpoint_flag(facts, res, tier):
    fn = facts.fn("replace_all", "Context")
    loops = [n for n in walk(fn["body"]) if n.get("k") in ("loop", "while")]
    if not loops:
        raise AnchorMissing("replace_all: fixed-point loop not found")
    lp = loops[0]
    body = lp["body"].get("stmts", [])
    flag = None
    for s0 in body[:2]:
        if s0.get("k") == "assign" and _norm(s0["r"]) == "false":
            flag = simple_name(s0["l"])
    if flag is None:
        raise AnchorMissing("replace_all: no flag is lowered at the start of a pass")
    # the flag decides the exit
    decides = any(x.get("k") == "if" and flag in re.findall(r"\w+", _norm(x["cond"])) and any(y.get("k") == "break" for y in walk(x["then"])) for x in walk(lp["body"]))
    n = 0
    for x in walk(lp["body"]):
        if x.get("k") in ("assign", "assignop") and simple_name(x["l"]) == flag and x is not body[0] and not (x in body[:2] and _norm(x.get("r")) == "false"):
            n += 1
            key = "T-FIXPOINT-FLAG:replace_all:%s#%d" % (flag, n)
            rt = _norm(x["r"])
            ok = x.get("k") == "assign" and rt == "true" or (x.get("k") == "assignop" and x["op"] == "|")
            res.inst(key, True, {"flag": flag, "assigned": rt[:60], "raise_only": ok})
            if not ok:
                res.fail("T-FIXPOINT-FLAG:replace_all:%s:not-raise-only" % flag, facts.where(fn, x), "inside a pass of replace_all `%s` is assigned `%s`: a macro that changes nothing lowers the flag an earlier macro of the same pass had raised, and expansion stops half way (`add(add(add(1,2),3),LIMIT)` gives `add(1,2)+3+4`)" % (flag, rt[:60]))
    res.inst("T-FIXPOINT-FLAG:replace_all:exit", True, {"flag": flag, "decides_exit": decides})
    if not decides:
        res.fail("T-FIXPOINT-FLAG:replace_all:exit", facts.where(fn, lp), "the pass loop of replace_all does not leave on `%s` being false" % flag)
    if n == 0:
        res.fail("T-FIXPOINT-FLAG:replace_all:never-raised", facts.where(fn, lp), "`%s` is never raised inside a pass: expansion stops after one pass" % flag)


# ----------------------------------------------------------------------------- grammar: the guard of a repetition is the next keyword


def _first_literal(rules, e, depth=0):
    if depth > 6 or not isinstance(e, dict):
        return None
    k = e.get("k")
    if k == "str":
        return e["v"]
    if k == "insens":
        return e["v"]
    if k == "ident":
        r = rules.get(e["v"])
        return _first_literal(rules, r["expr"], depth + 1) if r else None
    if k == "seq":
        return _first_literal(rules, e["a"], depth + 1)
    if k in ("opt", "rep", "rep1", "repn", "push", "pospred"):
        return _first_literal(rules, e["e"], depth + 1)
    return None


@rule("T-GRAMMAR-GUARD", floor=1,
      text="where the grammar keeps the keyword of what follows out of a repetition with a negative look-ahead (`(!\"default\" ~ statement)* ~ "
           "default_case?`), the look-ahead names exactly the first literal of what follows.  Tokens of a non-atomic rule may be separated by "
           "white space and comments, so a longer literal (`!\"default:\"`) lets `default :` into the repetition, where it is parsed as something "
           "else (a goto label: the default arm joins the previous case and `.default` is defined once per switch)")
def t_grammar_guard(facts, res, tier):
    rules = facts.grammar_rules()
    n = 0

    def visit(rname, e):
        nonlocal n
        if not isinstance(e, dict):
            return
        if e.get("k") == "seq":
            a, b = e["a"], e["b"]
            # a = ... rep( seq(negpred(str L), X) ) possibly at the tail of a nested seq / rep
            guards = []
            def tail_reps(x):
                if not isinstance(x, dict):
                    return
                if x.get("k") in ("rep", "rep1") and isinstance(x["e"], dict):
                    inner = x["e"]
                    if inner.get("k") == "seq" and isinstance(inner["a"], dict) and inner["a"].get("k") == "negpred" and inner["a"]["e"].get("k") == "str":
                        guards.append(inner["a"]["e"]["v"])
                    # a repetition whose body ends in such a repetition
                    tail_reps(inner)
                elif x.get("k") == "seq":
                    tail_reps(x["b"])
            tail_reps(a)
            for L in guards:
                fl = _first_literal(rules, b)
                n += 1
                key = "T-GRAMMAR-GUARD:%s:%s" % (rname, L[:20])
                res.inst(key, True, {"rule": rname, "look_ahead": L, "next_begins_with": fl})
                if fl is None:
                    res.fail(key, "src/cc6502.pest:%s" % rules[rname].get("line"), "rule `%s`: cannot tell what follows the repetition guarded by !\"%s\"" % (rname, L))
                elif fl != L:
                    res.fail(key, "src/cc6502.pest:%s" % rules[rname].get("line"), "rule `%s` guards a repetition with !\"%s\" but what follows begins with the token \"%s\": input that separates the tokens differently (`default :`) passes the guard and is parsed as part of the repetition" % (rname, L, fl))
        for v in e.values():
            if isinstance(v, dict):
                visit(rname, v)

    for rname, r in rules.items():
        visit(rname, r["expr"])
    if n == 0:
        raise AnchorMissing("no repetition guarded by a negative look-ahead literal found in the grammar")


# ----------------------------------------------------------------------------- the size of an asm statement


@rule("T-ASM-HINT-CHAIN", floor=4,
      text="the size declared for an asm statement (or the default when none is given) reaches the code vector unchanged and whole: from the "
           "statement through generate_asm_statement and GeneratorState::inline to AssemblyCode::append_inline every hand-over passes the "
           "Option it received, untouched; append_inline records exactly one Inline line per statement whose size is `size.unwrap_or(<the "
           "default>)` - no arithmetic on the hint, no per-line split, no special case by the text of the statement.  size_bytes and the branch "
           "checker add up exactly these numbers")
def t_asm_hint_chain(facts, res, tier):
    from genmodel import GEN_QUAL
    chain = [("generate_asm_statement", GEN_QUAL, "inline"), ("inline", GEN_QUAL, "append_inline")]
    for fname, qual, callee in chain:
        fn = facts.fn(fname, qual)
        sizep = [p["name"] for p in fn["params"] if "Option" in (p.get("ty") or "") and "u32" in (p.get("ty") or "")]
        if not sizep:
            raise AnchorMissing("%s: no Option<u32> size parameter" % fname)
        sp = sizep[0]
        calls = [(n, env) for n, env, doms in scoped(fn) if n.get("k") == "mcall" and n["method"] == callee]
        key = "T-ASM-HINT-CHAIN:%s->%s" % (fname, callee)
        res.inst(key, True, {"calls": len(calls), "size_parameter": sp})
        if len(calls) != 1:
            res.fail(key, facts.where(fn), "%s hands the statement to %s() %d times (expected once)" % (fname, callee, len(calls)))
            continue
        n, env = calls[0]
        passed = [a for a in n.get("args", []) if simple_name(a) == sp]
        b = env.get(sp)
        if not passed or b is None or b.src != "param":
            how = "a rebound `%s` (%s)" % (sp, _norm(b.init)[:60] if b is not None and b.init is not None else "?") if passed else "something else (%s)" % ", ".join(_norm(a)[:30] for a in n.get("args", []))
            res.fail(key, facts.where(fn, n), "%s does not pass the size it received on to %s(): it passes %s - the recorded size of the statement is no longer its declared or default size" % (fname, callee, how))
    ai = facts.fn("append_inline", "AssemblyCode")
    sizep = [p["name"] for p in ai["params"] if "Option" in (p.get("ty") or "")]
    pushes = [(n, env, doms) for n, env, doms in scoped(ai) if n.get("k") == "call" and _norm(n["func"]) == "AsmLine::Inline"]
    key = "T-ASM-HINT-CHAIN:append_inline"
    res.inst(key, True, {"inline_lines_built": len(pushes)})
    if len(pushes) != 1 or not sizep:
        res.fail(key, facts.where(ai), "append_inline builds %d Inline lines (expected exactly one per statement)" % len(pushes))
    else:
        n, env, doms = pushes[0]
        in_loop = any(x.get("k") in ("for", "while", "loop") and any(y is n for y in walk(x)) for x in walk(ai["body"]))
        szarg = n["args"][1] if len(n.get("args", [])) > 1 else None
        t = _norm(szarg) if szarg is not None else ""
        m = re.match(r"^%s\.unwrap_or\((\d+)\)$" % re.escape(sizep[0]), t)
        b = env.get(sizep[0])
        res.inst(key + ":size", True, {"size": t, "default": m.group(1) if m else None})
        if in_loop:
            res.fail(key, facts.where(ai, n), "append_inline records the statement inside a loop: the declared size is divided between several lines and what the division drops is lost")
        if not m or b is None or b.src != "param":
            res.fail(key + ":size", facts.where(ai, n), "append_inline records the size `%s`, not `%s.unwrap_or(<default>)` of the hint it was given" % (t[:60], sizep[0]))


# ----------------------------------------------------------------------------- positions are byte offsets


@rule("T-BYTE-UNIT", floor=3,
      text="source positions (`loc` / `pos`: pest span starts) are byte offsets.  A counter that is compared with such a position, or used to slice "
           "the text, and advanced while the text is walked character by character (`chars()`, a stored `Chars`) advances by the encoded length "
           "of each character (`c.len_utf8()`), not by one: after the first non-ASCII character a count of characters lags behind the byte "
           "offset (a wrong line) and, used as a slice bound, falls inside a character (a panic)")
def t_byte_unit(facts, res, tier):
    n = 0
    for fn in facts.fns:
        if fn["file"].endswith("/cpp.rs") or "/tests/" in fn["file"]:
            continue
        posp = [p["name"] for p in fn["params"] if p.get("name") in ("loc", "pos") and (p.get("ty") or "").strip() == "usize"]
        if not posp:
            continue
        walks_chars = any(x.get("k") == "mcall" and (x["method"] == "chars" or (x["method"] == "next" and re.search(r"char", _norm(x["recv"])))) for x in walk(fn["body"]))
        if not walks_chars:
            continue
        # counters compared with the position parameter
        counters = set()
        for x in walk(fn["body"]):
            if x.get("k") == "binary" and x["op"] in ("<", "<=", "==", "!=", ">", ">="):
                l, r = _norm(strip(x["l"])), _norm(strip(x["r"]))
                if r in posp and l not in posp:
                    counters.add(l)
                if l in posp and r not in posp:
                    counters.add(r)
        for c in sorted(counters):
            for x in walk(fn["body"]):
                if x.get("k") == "assignop" and x["op"] == "+" and _norm(strip(x["l"])) == c:
                    n += 1
                    key = "T-BYTE-UNIT:%s:%s" % (fn["name"], c[:40])
                    rt = _norm(x["r"])
                    ok = "len_utf8()" in rt or "len()" in rt
                    res.inst(key + "#%d" % n, True, {"function": fn["name"], "counter": c, "advanced_by": rt[:40]})
                    if not ok:
                        res.fail(key, facts.where(fn, x), "%s compares `%s` with the byte offset `%s` but advances it by `%s` per character: non-ASCII text before the place makes the count lag behind (wrong line, or a slice bound inside a character: `--insert_code` with `c = '€';` panicked)" % (fn["name"], c, posp[0], rt[:30]))
    if n == 0:
        raise AnchorMissing("no counter compared with a source position while walking characters was found")


# ----------------------------------------------------------------------------- grammar: atomic rules are lexical


@rule("T-GRAMMAR-ATOMIC", floor=5,
      text="white space and comments may separate any two tokens: in the grammar this is what a normal rule gives (pest inserts the implicit "
           "WHITESPACE / COMMENT between the elements of a sequence).  Atomic (`@`) and compound-atomic (`$`) rules switch that off, also inside "
           "every rule they reference, so they are used for lexical things only: no atomic or compound-atomic rule references a normal rule that "
           "is itself a sequence of several elements (`identifier = ${ id_name ~ subscript? }` would forbid the blank in `tab [i]`)")
def t_grammar_atomic(facts, res, tier):
    rules = facts.grammar_rules()
    builtin = lambda n: n.isupper() or n.startswith("ASCII") or n in ("ANY", "SOI", "EOI", "NEWLINE", "WHITESPACE", "COMMENT", "PUSH", "POP", "PEEK", "DROP")
    def refs(e, out):
        if isinstance(e, dict):
            if e.get("k") == "ident":
                out.add(e["v"])
            for v in e.values():
                refs(v, out)
        elif isinstance(e, list):
            for x in e:
                refs(x, out)
    def is_multi(e):
        # a sequence of two or more elements somewhere at the top of the rule (through opt / rep / choice)
        if not isinstance(e, dict):
            return False
        k = e.get("k")
        if k == "seq":
            # predicates consume nothing: `!guard ~ "const"` is one token
            parts = []
            def flat(x):
                if isinstance(x, dict) and x.get("k") == "seq":
                    flat(x["a"]); flat(x["b"])
                else:
                    parts.append(x)
            flat(e)
            parts = [x for x in parts if not (isinstance(x, dict) and x.get("k") in ("negpred", "pospred"))]
            return len(parts) >= 2 or any(is_multi(x) for x in parts)
        if k in ("opt", "rep", "rep1", "repn"):
            return is_multi(e["e"])
        if k == "choice":
            return is_multi(e["a"]) or is_multi(e["b"])
        return False
    n = 0
    for name, r in sorted(rules.items()):
        if r.get("ty") not in ("atomic", "compound", "compound_atomic") or builtin(name):
            continue
        n += 1
        out = set()
        refs(r["expr"], out)
        bad = []
        for q in sorted(out):
            if builtin(q) or q not in rules:
                continue
            rq = rules[q]
            # (a) inside a referenced normal rule the implicit white space is switched off too
            if rq.get("ty") in ("normal", "silent") and is_multi(rq["expr"]):
                bad.append(q)
        # (b) between two elements of the rule's own sequence there is no implicit white space either: a structural element
        #     (an explicitly non-atomic rule, or a multi-token one) must be separated from its neighbours by an explicit WHITESPACE
        def structural(e):
            if isinstance(e, dict) and e.get("k") in ("opt", "rep", "rep1", "repn"):
                return structural(e["e"])
            if isinstance(e, dict) and e.get("k") == "ident" and e["v"] in rules and not builtin(e["v"]):
                rq = rules[e["v"]]
                return rq.get("ty") in ("non_atomic", "nonatomic") or (rq.get("ty") in ("normal", "silent") and is_multi(rq["expr"]))
            return False
        def is_ws(e):
            if isinstance(e, dict) and e.get("k") in ("opt", "rep", "rep1", "repn"):
                return is_ws(e["e"])
            return isinstance(e, dict) and e.get("k") == "ident" and e["v"] in ("WHITESPACE", "COMMENT")
        def seqs(e, acc):
            # every sequence in the rule, flattened
            if not isinstance(e, dict):
                return
            if e.get("k") == "seq":
                flat = []
                def fl(x):
                    if isinstance(x, dict) and x.get("k") == "seq":
                        fl(x["a"]); fl(x["b"])
                    else:
                        flat.append(x)
                fl(e)
                acc.append(flat)
                for x in flat:
                    seqs(x, acc)
            else:
                for v in e.values():
                    if isinstance(v, dict):
                        seqs(v, acc)
        allseq = []
        seqs(r["expr"], allseq)
        for flat in allseq:
            for i, x in enumerate(flat):
                if structural(x):
                    left = flat[i - 1] if i > 0 else None
                    right = flat[i + 1] if i + 1 < len(flat) else None
                    token = lambda y: isinstance(y, dict) and (y.get("k") in ("str", "ident", "opt", "rep", "rep1") and not is_ws(y))
                    if (left is not None and token(left)) or (right is not None and token(right)):
                        nm = x["v"] if x.get("k") == "ident" else (x["e"].get("v") if isinstance(x.get("e"), dict) else "?")
                        if nm not in bad:
                            bad.append(nm)
        key = "T-GRAMMAR-ATOMIC:%s" % name
        res.inst(key, True, {"rule": name, "kind": r.get("ty"), "references": sorted(x for x in out if not builtin(x))})
        if bad:
            res.fail(key, "src/cc6502.pest:%s" % r.get("line"), "the %s rule `%s` references the multi-token rule%s %s: no white space or comment is accepted between the tokens of `%s` and what it references any more (`tab [i]`, `tab/* c */[i]` become syntax errors)" % (
                "compound-atomic" if r.get("ty") in ("compound", "compound_atomic") else "atomic", name, "s" if len(bad) > 1 else "", ", ".join("`%s`" % b for b in bad), name))
    if n == 0:
        raise AnchorMissing("no atomic rule found in the grammar")


# ----------------------------------------------------------------------------- is the quote escaped?


END_ANCHORED = {"ends_with", "trim_end_matches", "strip_suffix", "rfind", "rsplit", "rsplitn", "rsplit_once", "last", "len", "is_empty"}
NOT_END_ANCHORED = {"trim_matches", "trim_start_matches", "starts_with", "strip_prefix", "contains", "matches", "find", "split", "splitn", "split_once", "trim", "trim_start", "replace", "count", "chars", "bytes"}


@rule("T-QUOTE-ESCAPE", floor=1,
      text="while the scanner looks for the quote that closes a string literal, whether a quote is escaped depends only on the backslashes "
           "directly in front of it: the tests made on the piece of text before the quote, in the branch that decides between 'this is the end' "
           "and 'go on', are anchored at the end of that piece (ends_with, trim_end_matches, rfind ..).  A test that also looks at the start or "
           "the middle of the piece (trim_matches, contains, a count over all its characters) lets an escape elsewhere in the literal - `\\t` at "
           "its start - decide, and the literal is closed early: the macro name after the escaped quote is then expanded inside the string")
def t_quote_escape(facts, res, tier):
    fn = None
    for f in facts.fns:
        if f["name"] == "process" and f["file"].endswith("/cpp.rs"):
            fn = f
    if fn is None:
        raise AnchorMissing("cpp.rs: process() not found")
    n = 0
    for node, env, doms in scoped(fn):
        # the closing-quote search: `if let Some((left, _)) = <text>.split_once('"')` inside a loop
        if node.get("k") != "if":
            continue
        c = node["cond"]
        e0 = strip(c.get("e")) if isinstance(c, dict) and c.get("k") == "letcond" else None
        if not (isinstance(e0, dict) and e0.get("k") == "mcall" and e0["method"] == "split_once" and e0.get("args") and strip(e0["args"][0]).get("k") == "lit" and str(strip(e0["args"][0]).get("v")) == '"'):
            continue
        in_loop = any(x.get("k") in ("while", "loop") and any(y is node for y in walk(x["body"])) for x in walk(fn["body"]))
        if not in_loop:
            continue
        # the opening quote is found the same way one level up: the closing-quote search is the innermost such site
        def is_site(y):
            if not (isinstance(y, dict) and y.get("k") == "if" and isinstance(y.get("cond"), dict) and y["cond"].get("k") == "letcond"):
                return False
            e1 = strip(y["cond"].get("e"))
            return isinstance(e1, dict) and e1.get("k") == "mcall" and e1["method"] == "split_once" and e1.get("args") and str(strip(e1["args"][0]).get("v")) == '"'
        if any(is_site(y) for y in walk(node["then"]) if y is not node):
            continue
        piece = None
        p = c["pat"]
        for b in _pat_idents(p):
            piece = b
            break
        if piece is None:
            continue
        n += 1
        # every method applied to the piece (or to a value derived from it) inside this search
        used = set()
        derived = {piece}
        for x in walk(node["then"]):
            if x.get("k") == "let" and x.get("init") is not None and any(y.get("k") == "path" and y["segs"] == [d] for y in walk(x["init"]) for d in derived):
                derived |= _pat_idents(x.get("pat"))
        for x in walk(node["then"]):
            if x.get("k") == "mcall":
                root = x["recv"]
                while isinstance(root, dict) and root.get("k") in ("mcall", "ref", "unary", "field"):
                    root = root.get("recv") or root.get("e") or root.get("base")
                if isinstance(root, dict) and root.get("k") == "path" and len(root["segs"]) == 1 and root["segs"][0] in derived:
                    chain = []
                    y = x
                    while isinstance(y, dict) and y.get("k") == "mcall":
                        chain.append(y["method"])
                        y = y["recv"]
                    used |= set(chain)
        key = "T-QUOTE-ESCAPE:process:%s" % piece
        bad = sorted(used & NOT_END_ANCHORED)
        res.inst(key, True, {"piece": piece, "tests": sorted(used)})
        if bad:
            res.fail(key, facts.where(fn, node), "the search for the closing quote decides whether the quote is escaped with %s on the text before it (`%s`): that is not anchored at the end of the piece, so backslashes elsewhere in the literal count (`\"\\tsay \\\"FOO\\\" twice\"` is closed at the first escaped quote and FOO is expanded)" % (", ".join("`%s`" % b for b in bad), piece))
    if n == 0:
        raise AnchorMissing("process(): the loop that looks for the closing quote of a string literal was not found")
