"""Round-6 rules: totality of table lookups and of the remaining unwraps (C16), literal numbering (C09)."""
import re

from astlib import AnchorMissing, walk, expr_text
from core import rule
from scopes import scoped, strip, simple_name, lookup_helpers, _is_map_field

NAME_VARIANTS = ("Absolute", "AbsoluteX", "AbsoluteY")

# GeneratorState fields set by the downstream builder (cc2600 / cc7800; the in-tree reference is
# src/tests/build.rs), one line of reason each.  The rule checks the reference builder's writes.
BUILDER_FIELDS = {
    "self.current_function": "the builder sets current_function to a key it took from compiler_state.functions (and registers the same key in functions_code first)",
}


def _norm(e):
    return re.sub(r"\s+", "", expr_text(e))


class Origin:
    def __init__(self, kind, text, root=None, extra=None):
        self.kind = kind
        self.text = text
        self.root = root
        self.extra = extra

    def __repr__(self):
        return "%s(%s)" % (self.kind, self.text)


def origin(e, env, depth=0):
    """Where does the name denoted by expression e come from?"""
    e = strip(e)
    if not isinstance(e, dict) or depth > 6:
        return Origin("unknown", "?")
    k = e.get("k")
    if k == "lit" and e.get("ty") == "str":
        return Origin("lit", e["v"])
    if k == "macro" and e.get("name") == "format":
        return Origin("fmt", expr_text(e))
    if k == "path" and len(e["segs"]) == 1:
        nm = e["segs"][0]
        b = env.get(nm)
        if b is None:
            return Origin("unknown", nm)
        if b.ctor:
            c = b.ctor
            if c[0] in ("ExprType", "FlagsState") and c[-1] in NAME_VARIANTS and b.idx == 0:
                return Origin("et", "::".join(c), root=nm)
            if c == ["Expr", "Identifier"] and b.idx == 0:
                return Origin("ident", nm, root=nm)
            if c == ["Expr", "TmpId"] and b.idx == 0:
                return Origin("tmpid", nm, root=nm)
            if c == ["Some"] and b.scrut is not None:
                s = strip(b.scrut)
                if s.get("k") == "field" and s["base"].get("k") == "path" and s["base"]["segs"] == ["self"]:
                    return Origin("field", "self." + s["name"], root=nm)
                o = origin(b.scrut, env, depth + 1)
                return o
            return Origin("unknown", "%s bound in %s" % (nm, "::".join(c)))
        if b.src == "let" and b.init is not None:
            o = origin(b.init, env, depth + 1)
            if o.kind in ("ident", "et", "tmpid") and o.root is None:
                o.root = nm
            return o
        if b.src == "pat" and b.scrut is not None and b.depth == 0:
            # `match var.as_str() { ... variable => ...}`: the binder is the scrutinee itself
            o = origin(b.scrut, env, depth + 1)
            if o.kind != "unknown":
                o.extra = nm
                return o
        if b.src == "param":
            return Origin("param", nm, root=nm, extra=b.ty)
        return Origin("unknown", nm)
    if k == "field" and e["base"].get("k") == "path" and e["base"]["segs"] == ["self"]:
        return Origin("field", "self." + e["name"])
    return Origin("unknown", expr_text(e)[:60])


def _aliases(name, env):
    """Names that denote the same source name (binder <-> scrutinee root)."""
    out = {name}
    b = env.get(name)
    seen = 0
    while b is not None and seen < 6:
        seen += 1
        nxt = None
        if b.src == "pat" and b.depth == 0 and b.scrut is not None:
            nxt = simple_name(b.scrut)
        elif b.src == "let" and b.init is not None:
            nxt = simple_name(b.init)
        if nxt is None or nxt in out:
            break
        out.add(nxt)
        b = env.get(nxt)
    return out


def established(names, doms, helpers, maps):
    """Does a dominating statement / condition / arm establish that `name` is a key of the map?
    Returns a description or None."""
    def arg_is(e):
        return simple_name(e) in names

    for d in reversed(doms):
        if d[0] == "stmt":
            for n in _unconditional(d[1]):
                if n.get("k") == "mcall" and n["method"] in helpers and n.get("args") and arg_is(n["args"][helpers[n["method"]][1]] if len(n["args"]) > helpers[n["method"]][1] else n["args"][0]):
                    return "%s(%s) executed before" % (n["method"], "/".join(sorted(names)))
        elif d[0] == "cond" and d[2]:
            for n in walk(d[1]):
                if n.get("k") == "mcall" and n["method"] == "contains_key" and _is_map_field(n["recv"], maps) and n.get("args") and arg_is(n["args"][0]):
                    return "contains_key tested"
                if n.get("k") == "mcall" and n["method"] in ("is_some", "is_some_and"):
                    r = n["recv"]
                    if r.get("k") == "mcall" and r["method"] in ("get", "get_mut") and _is_map_field(r["recv"], maps) and r.get("args") and arg_is(r["args"][0]):
                        return "get(..).%s tested" % n["method"]
                    rn = simple_name(r)
                    if rn is not None:
                        # `let v = map.get(name); if v.is_some_and(..)`
                        for d2 in doms:
                            if d2[0] == "stmt" and d2[1].get("k") == "let" and rn in _pat_idents(d2[1].get("pat")):
                                i = strip(d2[1].get("init"))
                                if isinstance(i, dict) and i.get("k") == "mcall" and i["method"] in ("get", "get_mut") and _is_map_field(i["recv"], maps) and i.get("args") and arg_is(i["args"][0]):
                                    return "get(..) bound to %s and %s tested" % (rn, n["method"])
        elif d[0] == "arm":
            s = strip(d[1])
            p = d[2]
            if isinstance(s, dict) and s.get("k") == "mcall" and s["method"] in ("get", "get_mut") and _is_map_field(s["recv"], maps) and s.get("args") and arg_is(s["args"][0]):
                if isinstance(p, dict) and p.get("k") == "tstruct" and p.get("segs") == ["Some"]:
                    return "inside the Some arm of get(..)"
    return None


def _unconditional(stmt):
    """Nodes of a statement that are evaluated whenever the statement completes: no descent
    into branches, loops, closures or the right operand of a short-circuit operator."""
    stack = [stmt]
    while stack:
        n = stack.pop()
        if not isinstance(n, dict):
            continue
        yield n
        k = n.get("k")
        if k in ("closure", "loop", "while", "for"):
            continue
        if k == "if":
            stack.append(n["cond"])
            continue
        if k == "match":
            stack.append(n["e"])
            continue
        if k == "binary" and n.get("op") in ("&&", "||"):
            stack.append(n["l"])
            continue
        for key, v in n.items():
            if key in ("loc", "pat", "params"):
                continue
            if isinstance(v, dict):
                stack.append(v)
            elif isinstance(v, list):
                stack.extend(x for x in v if isinstance(x, dict))


def _pat_idents(p):
    out = set()
    def rec(x):
        if isinstance(x, dict):
            if x.get("k") == "ident":
                out.add(x["name"])
            for v in x.values():
                rec(v)
        elif isinstance(x, list):
            for y in x:
                rec(y)
    rec(p)
    return out


def checked_sinks(facts, helpers):
    """Functions taking an ExprType operand whose arm for a name-carrying variant starts by a
    *checked* lookup of the bound name: a literal name may be handed to them directly.
    -> {fn name: set(variants)}"""
    out = {}
    for fn in facts.fns:
        if not any("ExprType" in (p.get("ty") or "") for p in fn["params"]):
            continue
        first = {}
        for n, env, doms in scoped(fn):
            if n.get("k") == "mcall" and n["method"] in helpers and n.get("args"):
                h = helpers[n["method"]]
                a = n["args"][h[1]] if len(n["args"]) > h[1] else n["args"][0]
                o = origin(a, env)
                if o.kind == "et" and o.text.startswith("ExprType::"):
                    # was the operand pattern matched on a parameter?
                    b = env.get(o.root)
                    sroot = simple_name(b.scrut) if b is not None and b.scrut is not None else None
                    if sroot and env.get(sroot) is not None and env[sroot].src == "param":
                        v = o.text.split("::")[-1]
                        loc = tuple(int(x) for x in n["loc"].split(":"))
                        if v not in first or loc < first[v][0]:
                            first[v] = (loc, h[2])
        ok = {v for v, (_, kind) in first.items() if kind == "checked"}
        if ok:
            out[fn["name"]] = ok
    return out


@rule("T-LOOKUP-TOTAL", floor=30,
      text="every name handed to a panicking table lookup (get_variable, <map>.get(k).unwrap() on the variable and function tables) is known to be a key: "
           "it was bound from an ExprType::Absolute/AbsoluteX/AbsoluteY operand (those are built only from names that were looked up, from literal-table "
           "names, or from literal names handed straight to an emitter that checks them), or a dominating checked lookup / contains_key / Some-arm "
           "established it.  A name taken from the source (Expr::Identifier: the parser also admits X, Y and function names there), a literal name, "
           "or a name of unknown origin must not reach a panicking lookup: the compiler would abort instead of reporting an error")
def t_lookup_total(facts, res, tier):
    maps = ("variables", "functions")
    helpers = lookup_helpers(facts, maps)
    if not any(v[2] == "panics" for v in helpers.values()) and not helpers:
        raise AnchorMissing("no lookup helper found on the variable/function tables")
    sinks = checked_sinks(facts, helpers)
    n_sites = n_ctor = 0
    for fn in facts.fns:
        if fn["file"].endswith("/cpp.rs"):
            continue
        sc = scoped(fn)
        # comparison-only constructions
        cmp_only = set()
        direct_arg_of = {}
        for n, env, doms in sc:
            if n.get("k") == "binary" and n["op"] in ("==", "!="):
                for side in ("l", "r"):
                    cmp_only.add(id(strip(n[side])))
            if n.get("k") in ("mcall", "call"):
                callee = n["method"] if n["k"] == "mcall" else (n["func"]["segs"][-1] if n["func"].get("k") == "path" else None)
                for a in n.get("args", []):
                    direct_arg_of[id(strip(a))] = callee
        for n, env, doms in sc:
            k = n.get("k")
            # ---- lookup sites
            site = None
            if k == "mcall" and n["method"] in helpers and helpers[n["method"]][2] == "panics" and n.get("args"):
                h = helpers[n["method"]]
                site = (h[0], n["args"][h[1]] if len(n["args"]) > h[1] else n["args"][0], n["method"])
            elif k == "mcall" and n["method"] in ("unwrap", "expect"):
                r = n["recv"]
                if r.get("k") == "mcall" and r["method"] in ("get", "get_mut") and r.get("args"):
                    m = _is_map_field(r["recv"], maps)
                    if m:
                        params = [p.get("name") for p in fn["params"]]
                        if not (fn["name"] in helpers and simple_name(r["args"][0]) in params):
                            site = (m, r["args"][0], "%s.get().unwrap" % m)
            elif k == "index":
                m = _is_map_field(n["base"], maps)
                if m:
                    site = (m, n["idx"], "%s[..]" % m)
            if site:
                m, keyexpr, how = site
                n_sites += 1
                o = origin(keyexpr, env)
                root = simple_name(keyexpr)
                names = _aliases(root, env) if root else set()
                est = established(names, doms, {h: v for h, v in helpers.items()}, maps) if names else None
                key = "T-LOOKUP-TOTAL:%s:%s:%s:%s" % (fn["name"], m, o.kind, o.text if o.kind in ("lit", "field") else (root or _norm(keyexpr)[:30]))
                ok = False
                why = None
                if o.kind == "et" and m == "variables":
                    ok, why = True, "name of an %s operand" % o.text
                elif o.kind == "tmpid" and m == "variables":
                    ok, why = True, "literal-table name (Expr::TmpId): registered by parse_expr, see T-LITERAL-MERGE"
                elif est:
                    ok, why = True, est
                elif o.kind == "field" and o.text == "self.current_function" and fn["file"].endswith("/compile.rs") and m == "functions":
                    # compile.rs: the current function is inserted right after it is made current
                    ok, why = _current_function_registered(facts, res)
                elif o.kind == "field" and o.text in BUILDER_FIELDS and m == "functions" and "/generate/" in fn["file"]:
                    ok, why = True, "builder contract: " + BUILDER_FIELDS[o.text]
                res.inst(key, True, {"function": fn["name"], "table": m, "via": how, "key": _norm(keyexpr)[:60], "origin": repr(o), "established": why})
                if not ok:
                    if o.kind == "ident":
                        msg = "%s looks up `%s` with %s, but the name comes straight from an Expr::Identifier: the parser admits X, Y and function names (prototypes have no table entry) there, so the lookup panics on e.g. sizeof(X), &X, *X, strobe(X) or a prototype-only name used as a value" % (fn["name"], root, how)
                    elif o.kind == "lit":
                        msg = "%s looks up the literal name \"%s\" with %s: nothing guarantees the program or the builder declared it" % (fn["name"], o.text, how)
                    else:
                        msg = "%s looks up `%s` (origin: %r) with %s and nothing establishes that it is a key of `%s`" % (fn["name"], _norm(keyexpr)[:60], o, how, m)
                    res.fail(key, facts.where(fn, n), msg)
            # ---- constructions of name-carrying operands
            if k == "call" and n["func"].get("k") == "path" and n["func"]["segs"][0] == "ExprType" and n["func"]["segs"][-1] in NAME_VARIANTS and n.get("args"):
                if id(n) in cmp_only:
                    continue
                n_ctor += 1
                variant = n["func"]["segs"][-1]
                a = n["args"][0]
                o = origin(a, env)
                root = simple_name(a)
                names = _aliases(root, env) if root else set()
                est = established(names, doms, helpers, maps) if names else None
                key = "T-LOOKUP-TOTAL:%s:build-%s:%s:%s" % (fn["name"], variant, o.kind, o.text if o.kind in ("lit", "field") else (root or _norm(a)[:30]))
                ok = False
                why = None
                if o.kind in ("et", "tmpid"):
                    ok, why = True, "rebuilt from %r" % o
                elif est:
                    ok, why = True, est
                elif o.kind == "lit":
                    callee = direct_arg_of.get(id(n))
                    if callee in sinks and variant in sinks[callee]:
                        ok, why = True, "handed directly to %s(), whose %s arm begins with a checked lookup" % (callee, variant)
                res.inst(key, True, {"function": fn["name"], "variant": variant, "name": _norm(a)[:60], "origin": repr(o), "established": why})
                if not ok:
                    if o.kind == "lit":
                        msg = "%s builds ExprType::%s(\"%s\") and hands it to %s(): every consumer looks the name up with a panicking lookup, and nothing guarantees the program or the builder declared \"%s\" (e.g. csleep() without a DUMMY location, a banked call without ROM_SELECT)" % (fn["name"], variant, o.text, direct_arg_of.get(id(n)), o.text)
                    else:
                        msg = "%s builds ExprType::%s from `%s` (origin: %r) without establishing that it names a variable: every consumer of the operand looks it up with a panicking lookup" % (fn["name"], variant, _norm(a)[:60], o)
                    res.fail(key, facts.where(fn, n), msg)
    res.note("%d lookup sites, %d constructions of name-carrying operands; helpers: %s; checked sinks: %s" % (n_sites, n_ctor, {k: v[2] for k, v in helpers.items()}, {k: sorted(v) for k, v in sinks.items()}))
    # reference builder contract
    for fn in facts.fns:
        for n, env, doms in scoped(fn):
            if n.get("k") == "assign" and _norm(n["l"]).endswith(".current_function") and fn["file"].endswith("/build.rs"):
                r = strip(n["r"])
                key = "T-LOOKUP-TOTAL:builder:%s:current_function" % fn["name"]
                if r.get("k") == "path" and r["segs"] == ["None"]:
                    continue
                inner = r["args"][0] if r.get("k") == "call" and r.get("args") else r
                root = None
                x = strip(inner)
                while isinstance(x, dict) and x.get("k") in ("field", "index", "mcall"):
                    x = strip(x.get("base") or x.get("recv"))
                if isinstance(x, dict) and x.get("k") == "path":
                    root = x["segs"][0]
                b = env.get(root)
                ok = b is not None and b.src == "for" and "sorted_functions" in _norm(b.scrut)
                res.inst(key, True, {"assigned": _norm(n["r"]), "iterates": _norm(b.scrut) if b is not None and b.scrut is not None else None})
                if not ok:
                    res.fail(key, facts.where(fn, n), "the reference builder sets current_function to `%s`, which is not a key taken from compiler_state.functions" % _norm(n["r"]))


def _current_function_registered(facts, res):
    """compile.rs: `self.current_function = name` is preceded, in the same block, by
    `self.functions.insert(name, ..)` or followed by it before any lookup; and nothing removes
    from `functions`."""
    for fn in facts.fns:
        if not fn["file"].endswith("/compile.rs"):
            continue
        for n in walk(fn["body"]):
            if n.get("k") == "mcall" and n["method"] in ("remove", "clear", "retain", "drain") and _is_map_field(n["recv"], ("functions",)):
                return False, None
    setters = []
    for fn in facts.fns:
        if not fn["file"].endswith("/compile.rs"):
            continue
        for n, env, doms in scoped(fn):
            if n.get("k") == "block":
                st = n.get("stmts", [])
                for i, s in enumerate(st):
                    if s.get("k") == "assign" and _norm(s["l"]) == "self.current_function":
                        nm = simple_name(s["r"])
                        # an insert of the same name into functions later in this block, before any get_mut(current_function)
                        good = False
                        for t in st[i + 1:]:
                            ins = [x for x in walk(t) if x.get("k") == "mcall" and x["method"] == "insert" and _is_map_field(x["recv"], ("functions",)) and x.get("args") and simple_name(x["args"][0]) == nm]
                            if ins:
                                good = True
                                break
                            if any(x.get("k") == "mcall" and x["method"] in ("get_mut", "get") and _is_map_field(x["recv"], ("functions",)) and "current_function" in _norm(x) for x in walk(t)):
                                break
                        setters.append(good)
    if setters and all(setters):
        return True, "compile.rs inserts the function under the same name right after making it current (%d setter(s)); nothing removes functions" % len(setters)
    return False, None


# ----------------------------------------------------------------------------- literal tables


def _tuple_index_of_map(ret):
    """Index of the HashMap component in `Result<(A, B, HashMap<..>), Error>`."""
    t = ret.replace(" ", "")
    m = re.match(r"^Result<\((.*)\),(?:crate::)?(?:error::)?Error>$", t)
    if not m:
        return None
    depth = 0
    parts = [""]
    for ch in m.group(1):
        if ch in "<(":
            depth += 1
        elif ch in ">)":
            depth -= 1
        if ch == "," and depth == 0:
            parts.append("")
        else:
            parts[-1] += ch
    for i, p in enumerate(parts):
        if p.startswith("HashMap<String,String>"):
            return i
    return None


@rule("T-LITERAL-MERGE", floor=8,
      text="string literals met while parsing an expression are never lost and never share a name: every call of a literal-collecting parser "
           "(a function returning the (name -> bytes) table of the literals it met) has its table merged into the caller's table or registered as "
           "variables, and advances the caller's numbering by the table's size; a parser entered from inside another one starts numbering at the "
           "caller's current count, which it receives as an argument (never at the per-statement base again); and every Expr::TmpId names an entry "
           "that was put into the table in the same arm")
def t_literal_merge(facts, res, tier):
    fns = [f for f in facts.fns if f["file"].endswith("/compile.rs")]
    P = {}
    for f in fns:
        i = _tuple_index_of_map(f["ret"])
        if i is not None:
            P[f["name"]] = i
    if not P:
        raise AnchorMissing("no literal-collecting parser (returning a HashMap<String, String> component) found in compile.rs")
    # which of them allocate names, and from what is their counter initialised
    alloc = {}
    for f in fns:
        if f["name"] not in P:
            continue
        for n in walk(f["body"]):
            if n.get("k") == "call" and n["func"].get("k") == "path" and n["func"]["segs"] == ["Expr", "TmpId"]:
                alloc[f["name"]] = True
    callers_in_P = {}
    for f in fns:
        for n in walk(f["body"]):
            if n.get("k") == "mcall" and n["method"] in P:
                if f["name"] in P:
                    callers_in_P.setdefault(n["method"], set()).add(f["name"])
    for f in fns:
        params = [p.get("name") for p in f["params"] if p.get("name") != "self"]
        in_P = f["name"] in P
        # the running counter of this function: `let <c> = Rc::new(Mutex::new(<init>))` whose name is locked and formatted into a name
        counter = None
        counter_init = None
        if f["name"] in alloc:
            for n in walk(f["body"]):
                if n.get("k") == "let" and n.get("init") is not None and "Mutex::new" in _norm(n["init"]) and "HashMap" not in _norm(n["init"]):
                    nm = _pat_idents(n["pat"])
                    if len(nm) == 1:
                        counter = list(nm)[0]
                        m = re.search(r"Mutex::new\((.*?)\)\)*$", _norm(n["init"]))
                        counter_init = m.group(1) if m else _norm(n["init"])
            key = "T-LITERAL-MERGE:%s:counter-start" % f["name"]
            nested = sorted(callers_in_P.get(f["name"], ()))
            res.inst(key, True, {"function": f["name"], "counter": counter, "starts_at": counter_init, "entered_from_parsers": nested})
            if counter is None:
                res.fail(key, facts.where(f), "%s allocates literal names but its running counter was not found" % f["name"])
            elif nested and counter_init not in params:
                res.fail(key, facts.where(f), "%s is entered from inside %s but starts numbering its literals at `%s` instead of a start value given by the caller: two literals of one statement get the same name (e.g. f(\"a\") + f(\"b\") stores one string and uses it twice)" % (f["name"], ", ".join(nested), counter_init))
        sc = scoped(f)
        for n, env, doms in sc:
            if not (n.get("k") == "mcall" and n["method"] in P):
                continue
            callee = n["method"]
            idx = P[callee]
            # bound to which name?
            bound = None
            region = None
            for n2, env2, doms2 in sc:
                if n2.get("k") == "block":
                    st = n2.get("stmts", [])
                    for i, s2 in enumerate(st):
                        if s2.get("k") == "let" and s2.get("init") is not None and any(x is n for x in _unconditional(s2["init"])):
                            nm = _pat_idents(s2["pat"])
                            if len(nm) == 1:
                                bound = list(nm)[0]
                                region = {"k": "block", "stmts": st[i + 1:]}
            key = "T-LITERAL-MERGE:%s:call:%s" % (f["name"], callee)
            uses_map = uses_len = 0
            if bound:
                for x in walk(region):
                    if x.get("k") == "field" and x["name"] == str(idx) and x["base"].get("k") == "path" and x["base"]["segs"] == [bound]:
                        # `.len()` use or another use?
                        is_len = any(y.get("k") == "mcall" and y["method"] == "len" and strip(y["recv"]) is x for y in walk(region))
                        if is_len:
                            uses_len += 1
                        else:
                            uses_map += 1
            # start argument
            start = None
            callee_fn = [g for g in fns if g["name"] == callee][0]
            cparams = [p.get("name") for p in callee_fn["params"] if p.get("name") != "self"]
            start_param = None
            for i, p in enumerate(callee_fn["params"]):
                if p.get("name") != "self" and (p.get("ty") or "").strip() == "usize":
                    start_param = cparams.index(p["name"])
            if start_param is not None and len(n.get("args", [])) > start_param:
                start = n["args"][start_param]
            start_ok = None
            start_desc = None
            if in_P:
                if start is None:
                    start_ok = False
                    start_desc = "no start value is passed"
                else:
                    o = simple_name(start)
                    b = env.get(o) if o else None
                    if counter is not None:
                        # must read the running counter
                        init = _norm(b.init) if b is not None and b.init is not None else _norm(start)
                        start_ok = counter in re.findall(r"\w+", init)
                        start_desc = "start = %s" % init
                    else:
                        start_ok = o in params
                        start_desc = "start = own parameter %s" % o
            res.inst(key, True, {"function": f["name"], "callee": callee, "bound_to": bound, "table_uses": uses_map, "len_uses": uses_len, "start": start_desc})
            if not bound or uses_map == 0:
                res.fail(key, facts.where(f, n), "%s calls %s() and drops the table of string literals it returns (only other components of `%s` are used): a literal met there is used by the generated code but never stored, and its name is never registered (e.g. a string literal inside a subscript: t[f(\"x\")])" % (f["name"], callee, bound))
            elif counter is not None and uses_len == 0:
                res.fail(key + ":advance", facts.where(f, n), "%s merges the literals of %s() but does not advance its own numbering by their count: the next literal reuses a name" % (f["name"], callee))
            if in_P and start_ok is False:
                res.fail(key + ":start", facts.where(f, n), "%s (a literal-collecting parser) enters %s() but %s that reads its own running count: the nested parse numbers its literals from the statement's base again" % (f["name"], callee, start_desc or "passes no start value"))
        # TmpId <-> insert pairing
        for n, env, doms in sc:
            if n.get("k") == "call" and n["func"].get("k") == "path" and n["func"]["segs"] == ["Expr", "TmpId"] and n.get("args"):
                nm = simple_name(n["args"][0])
                key = "T-LITERAL-MERGE:%s:tmpid" % f["name"]
                ok = False
                for d in doms:
                    if d[0] == "stmt":
                        for x in _unconditional(d[1]):
                            if x.get("k") == "mcall" and x["method"] == "insert" and x.get("args") and simple_name(x["args"][0]) == nm:
                                ok = True
                res.inst(key, True, {"function": f["name"], "name": nm, "inserted_before": ok})
                if not ok:
                    res.fail(key, facts.where(f, n), "%s builds Expr::TmpId(%s) without putting that name into the literal table first" % (f["name"], nm))


# ----------------------------------------------------------------------------- constant arithmetic


CONST_CTORS = {("ExprType", "Immediate", 0), ("Expr", "Integer", 0), ("ExprType", "Absolute", 2), ("VariableValue", "Int", 0)}
CONST_SOURCES = ("parse_calc", "parse_int", "parse_sizeof")
OVERFLOWING = ("+", "-", "*", "<<")


def _const_origin(e, env, depth=0):
    """Is e an i32 taken from the source text (a constant the user wrote, or arithmetic on one)?"""
    e = strip(e)
    if not isinstance(e, dict) or depth > 5:
        return None
    k = e.get("k")
    if k == "path" and len(e["segs"]) == 1:
        b = env.get(e["segs"][0])
        if b is None:
            return None
        if b.ctor and (b.ctor[0], b.ctor[-1], b.idx) in CONST_CTORS:
            return "::".join(b.ctor)
        if b.src == "closure" and getattr(b, "ty", None) == "const-operand":
            return "operand of a constant evaluator"
        if b.src == "let" and b.init is not None:
            return _const_origin(b.init, env, depth + 1)
        return None
    if k == "mcall" and e["method"] in CONST_SOURCES:
        return e["method"] + "()"
    if k == "try":
        return _const_origin(e["e"], env, depth + 1)
    if k == "binary" and e["op"] in ("+", "-", "*", "<<", ">>", "/", "%"):
        return _const_origin(e["l"], env, depth + 1) or _const_origin(e["r"], env, depth + 1)
    if k == "unary" and e["op"] == "-":
        return _const_origin(e["e"], env, depth + 1)
    if k == "cast":
        return _const_origin(e["e"], env, depth + 1)
    if k == "if":
        return _const_origin(_tail(e.get("then")), env, depth + 1) or _const_origin(_tail(e.get("else")), env, depth + 1)
    if k == "match":
        for a in e.get("arms", []):
            o = _const_origin(_tail(a.get("body")), env, depth + 1)
            if o:
                return o
    if k == "block":
        return _const_origin(_tail(e), env, depth + 1)
    return None


def _tail(n):
    while isinstance(n, dict) and n.get("k") == "block" and n.get("stmts"):
        n = n["stmts"][-1]
    return n


def _int_lit(e):
    e = strip(e)
    if isinstance(e, dict) and e.get("k") == "lit" and e.get("ty") == "int":
        try:
            return int(str(e["v"]).replace("_", ""), 0)
        except ValueError:
            return None
    return None


def _bounded(e, doms):
    """A dominating comparison of the same expression with a literal bounds it from above
    (and, for the uses here, makes overflow impossible): `if value < 8 {..}`, `== 8`."""
    t = _norm(strip(e))
    for d in doms:
        if d[0] == "cond" and d[2]:
            for n in walk(d[1]):
                if n.get("k") == "binary" and n["op"] in ("<", "<=", "==") and _norm(strip(n["l"])) == t and _int_lit(n["r"]) is not None:
                    return True
        if d[0] == "arm" and _norm(strip(d[1])) == t and isinstance(d[2], dict) and d[2].get("k") in ("lit", "range"):
            return True
    return False


@rule("T-CONST-ARITH", floor=10,
      text="arithmetic on constants taken from the source text cannot overflow: wherever a value that comes from an integer the user wrote (Expr::Integer, "
           "ExprType::Immediate, the constant offset of an Absolute operand, the operands of the constant-expression evaluator, results of parse_calc / "
           "parse_int) is combined with another such value or with a literal by + - * << or negated, or two such values are divided or shifted, the "
           "operation is a checked_* / wrapping_* call (or the operand is bounded by an enclosing comparison): a bare operator panics on overflow in "
           "a debug build and, for i32::MIN / -1 and out-of-range shifts, in every build")
def t_const_arith(facts, res, tier):
    n_sites = n_safe = 0
    for fn in facts.fns:
        if fn["file"].endswith("/cpp.rs") or "/tests/" in fn["file"]:
            continue
        # closures given to map_infix / map_prefix in a function that evaluates to i32: their operands are constants
        evaluator = fn["ret"].replace(" ", "").startswith("Result<i32,")
        sc = scoped(fn)
        if evaluator:
            for n, env, doms in sc:
                if n.get("k") == "mcall" and n["method"] in ("map_infix", "map_prefix", "map_postfix") and n.get("args") and n["args"][0].get("k") == "closure":
                    for p in n["args"][0].get("params", []):
                        nm = p.get("name")
                        if nm in ("lhs", "rhs"):
                            for n2, env2, doms2 in sc:
                                b = env2.get(nm)
                                if b is not None and b.src == "closure":
                                    b.ty = "const-operand"
        seen = set()
        for n, env, doms in sc:
            k = n.get("k")
            desc = None
            if k == "binary" and n["op"] in ("+", "-", "*", "<<", ">>", "/", "%"):
                kl, kr = _const_origin(n["l"], env), _const_origin(n["r"], env)
                ll, lr = _int_lit(n["l"]), _int_lit(n["r"])
                bl, br = (kl and _bounded(n["l"], doms)), (kr and _bounded(n["r"], doms))
                op = n["op"]
                if kl and kr and not (bl and br):
                    desc = "both operands come from the source"
                elif op in OVERFLOWING and ((kl and not bl and lr is not None and not (op in ("+", "-") and lr == 0) and not (op == "*" and lr in (0, 1))) or
                                             (kr and not br and ll is not None and not (op == "<<") and not (op in ("+",) and ll == 0) and not (op == "*" and ll in (0, 1)))):
                    desc = "a source constant combined with a literal"
                elif op == "<<" and kr and not br:
                    desc = "shift count from the source"
                elif op in OVERFLOWING and ((kl and not bl and lr is None) or (kr and not br and ll is None)) and op != "<<":
                    desc = "a source constant combined with another value"
                # counted as safe instance otherwise
                if (kl or kr) and desc is None:
                    n_safe += 1
            elif k == "unary" and n["op"] == "-" and _const_origin(n["e"], env) and _int_lit(n["e"]) is None:
                desc = "negation of a source constant"
            elif k == "assignop" and n["op"] in OVERFLOWING and _const_origin(n["r"], env) and not _bounded(n["r"], doms):
                desc = "compound assignment of a source constant"
            if desc is None:
                continue
            n_sites += 1
            key = "T-CONST-ARITH:%s:%s" % (fn["name"], _norm(n)[:40])
            if key in seen:
                continue
            seen.add(key)
            res.inst(key, True, {"function": fn["name"], "expression": expr_text(n)[:80], "why": desc})
            res.fail(key, facts.where(fn, n), "%s computes `%s` with a bare operator (%s): an overflow panics (i32::MAX + 1, 65536 * 65536, 1 << 40, -(i32::MIN), i32::MIN / -1) instead of being reported or wrapped" % (fn["name"], expr_text(n)[:80], desc))
    # checked/wrapping calls on constants are the positive instances
    for fn in facts.fns:
        if fn["file"].endswith("/cpp.rs") or "/tests/" in fn["file"]:
            continue
        for n in walk(fn["body"]):
            if n.get("k") == "mcall" and re.match(r"^(checked|wrapping|saturating|overflowing)_(add|sub|mul|div|rem|neg|shl|shr)$", n["method"]):
                res.inst("T-CONST-ARITH:%s:%s:%s" % (fn["name"], n["method"], _norm(n)[:40]), True, {"function": fn["name"], "call": expr_text(n)[:80]})
    res.note("%d bare operations on source constants, %d constant operations that cannot overflow (comparisons with literals, shifts by literal counts, bitwise)" % (n_sites, n_safe))
