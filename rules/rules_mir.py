"""Rules over type-resolved facts (mirfacts): they close the gap left by the syntactic type
resolution of the astx rules - every site the type checker sees must have been classified."""
import re

from astlib import load_facts, walk, expr_text
from core import rule

HASH_ITER = re.compile(r"^std::collections::Hash(Map|Set)::<.*>::(iter|iter_mut|keys|values|values_mut|drain|into_keys|into_values|extract_if|retain)$")


def is_hash_iteration(call):
    c = call["callee"]
    if HASH_ITER.match(c):
        return True
    if c.endswith("as std::iter::IntoIterator>::into_iter") and re.search(r"std::collections::Hash(Map|Set)<", c + " " + call["arg0"]):
        return "Hash" in call["arg0"].split("<")[0] or "HashMap" in call["arg0"][:40] or "HashSet" in call["arg0"][:40] or "Hash" in c
    return False


@rule("M-HASH-SITES", engine="mir", floor=8,
      text="every HashMap/HashSet iteration the type checker resolves (iter, iter_mut, keys, values, drain, into_iter, for-loops over a reference) lies in a function in which T-HASH-ITER classified at least as many hash iterations: no iteration site escapes classification because its receiver type could not be resolved syntactically")
def m_hash_sites(mir, res, tier):
    import core
    ast = load_facts(mir.config, mir.repo)
    # run the AST classification to get its per-function site counts
    r = core.Result()
    core.RULES["T-HASH-ITER"].fn(ast, r, tier)
    classified = {}
    for key, nt, sample in r.instances:
        m = re.match(r"^T-HASH-ITER:(\w+):", key)
        if m:
            classified[m.group(1)] = classified.get(m.group(1), 0) + 1
    seen = {}
    for f in mir.fns:
        for c in f["calls"]:
            if c["expn"] and "debug" in c["callee"]:
                continue
            if is_hash_iteration(c):
                name = mir.short(f["path"])
                seen.setdefault(name, []).append(c)
    for name, calls in sorted(seen.items()):
        key = "M-HASH-SITES:%s" % name
        res.inst(key, True, {"function": name, "resolved_iterations": len(calls), "classified_by_T-HASH-ITER": classified.get(name, 0),
                             "callees": sorted({c["callee"].split("::")[-1] for c in calls})})
        if classified.get(name, 0) < len(calls):
            c = calls[0]
            res.fail(key, "%s:%s" % (c["file"], c["line"]), "%s iterates over a hash container %d time(s) (resolved: %s on %s) but T-HASH-ITER classified only %d iteration(s) there: an iteration whose order may be observable was not examined" % (
                name, len(calls), c["callee"].split("::")[-1], c["arg0"][:60], classified.get(name, 0)))


@rule("M-ERR-UNWRAP", engine="mir", floor=1,
      text="no call resolves to Result::<_, cc6502::error::Error>::unwrap / expect / unwrap_unchecked (nor on io::Error or Utf8Error results): a structured error is never turned into a panic; the remaining panic-capable calls are inventoried in the evidence")
def m_err_unwrap(mir, res, tier):
    inv = {"Option::unwrap": 0, "Option::expect": 0, "Result::unwrap(other)": 0, "panic/unreachable": 0, "index/slice bounds": 0}
    n = 0
    for f in mir.fns:
        for c in f["calls"]:
            cal = c["callee"]
            m = re.match(r"^std::result::Result::<.*>::(unwrap|expect|unwrap_unchecked|unwrap_err|expect_err)$", cal)
            if m:
                g = c["generics"] + " " + c["arg0"]
                n += 1
                if re.search(r"\bcc6502::error::Error\b|(?<![\w:])error::Error\b|std::io::Error|\bstr::(error::)?Utf8Error", g) and m.group(1) in ("unwrap", "expect", "unwrap_unchecked"):
                    key = "M-ERR-UNWRAP:%s:%s" % (mir.short(f["path"]), m.group(1))
                    res.inst(key)
                    res.fail(key, "%s:%s" % (c["file"], c["line"]), "%s calls Result::%s on %s: a reported error becomes a panic" % (mir.short(f["path"]), m.group(1), c["arg0"][:100]))
                else:
                    inv["Result::unwrap(other)"] += 1
            elif re.match(r"^std::option::Option::<.*>::unwrap$", cal):
                inv["Option::unwrap"] += 1
            elif re.match(r"^std::option::Option::<.*>::expect$", cal):
                inv["Option::expect"] += 1
            elif cal.startswith("core::panicking::") or cal.startswith("std::rt::panic") or "panic_fmt" in cal or "unreachable_display" in cal:
                inv["panic/unreachable"] += 1
        for a in f["asserts"]:
            if a["kind"] == "BoundsCheck":
                inv["index/slice bounds"] += 1
    res.inst("M-ERR-UNWRAP:resolved-result-unwraps", True, {"result_unwrap_calls": n})
    res.inst("M-PANIC-INVENTORY", False, inv)
    res.note("panic-capable sites (informational, not a verdict): %s" % inv)


@rule("M-DIV-SITES", engine="mir", floor=1,
      text="every integer division/remainder for which rustc emits a division-by-zero check is one of the sites T-DIV-GUARD examined (same functions, at least as many sites)")
def m_div_sites(mir, res, tier):
    import core
    ast = load_facts(mir.config, mir.repo)
    r = core.Result()
    core.RULES["T-DIV-GUARD"].fn(ast, r, tier)
    examined = {}
    for key, nt, sample in r.instances:
        m = re.match(r"^T-DIV-GUARD:(\w+):", key)
        if m:
            examined[m.group(1)] = examined.get(m.group(1), 0) + 1
    found = {}
    for f in mir.fns:
        for a in f["asserts"]:
            if a["kind"] in ("DivisionByZero", "RemainderByZero"):
                found.setdefault(mir.short(f["path"]), []).append(a)
    for name, lst in sorted(found.items()):
        key = "M-DIV-SITES:%s" % name
        res.inst(key, True, {"function": name, "checked_divisions": len(lst), "examined_by_T-DIV-GUARD": examined.get(name, 0)})
        if examined.get(name, 0) < len(lst):
            res.fail(key, "%s:%s" % (lst[0]["file"], lst[0]["line"]), "%s contains %d division(s) with a run-time zero check but T-DIV-GUARD examined %d" % (name, len(lst), examined.get(name, 0)))
    if not found:
        res.inst("M-DIV-SITES:none", False, {"note": "rustc proved every divisor non-zero"})


NONDET_CALLEES = re.compile(r"^(std::time::|std::env::(var|vars|var_os|args|current_dir|temp_dir)|std::thread::(spawn|current)|std::process::id|rand::|std::collections::hash_map::RandomState::new|std::hash::RandomState::new|<\*(const|mut) .* as std::fmt::Pointer>::fmt)")


@rule("M-NONDET", engine="mir", floor=1,
      text="no function of the crate calls (after trait and path resolution) the clock, the environment, process identity, thread spawning, an explicit random state or pointer formatting")
def m_nondet(mir, res, tier):
    n = 0
    for f in mir.fns:
        for c in f["calls"]:
            n += 1
            if NONDET_CALLEES.match(c["callee"]):
                key = "M-NONDET:%s:%s" % (mir.short(f["path"]), c["callee"])
                res.inst(key)
                res.fail(key, "%s:%s" % (c["file"], c["line"]), "%s calls %s: the output would depend on something other than source and options" % (mir.short(f["path"]), c["callee"]))
    res.inst("M-NONDET:calls-resolved", True, {"calls": n, "functions": len(mir.fns)})
    for s in mir.doc.get("statics", []):
        key = "M-NONDET:static:%s" % s["path"]
        res.inst(key, True, s)
        if s["mut"] or re.search(r"Mutex|RwLock|RefCell|Cell<|Atomic|OnceCell|OnceLock|Lazy", s["ty"]):
            res.fail(key, s["path"], "static %s holds mutable state shared between compilations" % s["path"])
