"""Rules over type-resolved facts (mirfacts): they close the gap left by the syntactic type
resolution of the astx rules - every site the type checker sees must have been classified."""
import re

from astlib import load_facts, walk, expr_text
from core import rule

HASH_ITER = re.compile(r"^std::collections::Hash(Map|Set)::<.*>::(iter|iter_mut|keys|values|values_mut|drain|into_keys|into_values|extract_if|retain)$")


def is_hash_iteration(call):
    c = call["callee"]
    if HASH_ITER.match(c):
        return True
    if c.endswith("as std::iter::IntoIterator>::into_iter") and re.search(r"std::collections::Hash(Map|Set)<", c + " " + call["arg0"]):
        return "Hash" in call["arg0"].split("<")[0] or "HashMap" in call["arg0"][:40] or "HashSet" in call["arg0"][:40] or "Hash" in c
    return False


@rule("M-HASH-SITES", engine="mir", floor=8,
      text="every HashMap/HashSet iteration the type checker resolves (iter, iter_mut, keys, values, drain, into_iter, for-loops over a reference) lies in a function in which T-HASH-ITER classified at least as many hash iterations: no iteration site escapes classification because its receiver type could not be resolved syntactically")
def m_hash_sites(mir, res, tier):
    import core
    ast = load_facts(mir.config, mir.repo)
    # run the AST classification to get its per-function site counts
    r = core.Result()
    core.RULES["T-HASH-ITER"].fn(ast, r, tier)
    classified = {}
    for key, nt, sample in r.instances:
        m = re.match(r"^T-HASH-ITER:(\w+):", key)
        if m:
            classified[m.group(1)] = classified.get(m.group(1), 0) + 1
    seen = {}
    for f in mir.fns:
        for c in f["calls"]:
            if c["expn"] and "debug" in c["callee"]:
                continue
            if is_hash_iteration(c):
                name = mir.short(f["path"])
                seen.setdefault(name, []).append(c)
    for name, calls in sorted(seen.items()):
        key = "M-HASH-SITES:%s" % name
        res.inst(key, True, {"function": name, "resolved_iterations": len(calls), "classified_by_T-HASH-ITER": classified.get(name, 0),
                             "callees": sorted({c["callee"].split("::")[-1] for c in calls})})
        if classified.get(name, 0) < len(calls):
            c = calls[0]
            res.fail(key, "%s:%s" % (c["file"], c["line"]), "%s iterates over a hash container %d time(s) (resolved: %s on %s) but T-HASH-ITER classified only %d iteration(s) there: an iteration whose order may be observable was not examined" % (
                name, len(calls), c["callee"].split("::")[-1], c["arg0"][:60], classified.get(name, 0)))


@rule("M-ERR-UNWRAP", engine="mir", floor=1,
      text="no call resolves to Result::<_, cc6502::error::Error>::unwrap / expect / unwrap_unchecked (nor on io::Error or Utf8Error results): a structured error is never turned into a panic; the remaining panic-capable calls are inventoried in the evidence")
def m_err_unwrap(mir, res, tier):
    inv = {"Option::unwrap": 0, "Option::expect": 0, "Result::unwrap(other)": 0, "panic/unreachable": 0, "index/slice bounds": 0}
    n = 0
    for f in mir.fns:
        for c in f["calls"]:
            cal = c["callee"]
            m = re.match(r"^std::result::Result::<.*>::(unwrap|expect|unwrap_unchecked|unwrap_err|expect_err)$", cal)
            if m:
                g = c["generics"] + " " + c["arg0"]
                n += 1
                if re.search(r"\bcc6502::error::Error\b|(?<![\w:])error::Error\b|std::io::Error|\bstr::(error::)?Utf8Error", g) and m.group(1) in ("unwrap", "expect", "unwrap_unchecked"):
                    key = "M-ERR-UNWRAP:%s:%s" % (mir.short(f["path"]), m.group(1))
                    res.inst(key)
                    res.fail(key, "%s:%s" % (c["file"], c["line"]), "%s calls Result::%s on %s: a reported error becomes a panic" % (mir.short(f["path"]), m.group(1), c["arg0"][:100]))
                else:
                    inv["Result::unwrap(other)"] += 1
            elif re.match(r"^std::option::Option::<.*>::unwrap$", cal):
                inv["Option::unwrap"] += 1
            elif re.match(r"^std::option::Option::<.*>::expect$", cal):
                inv["Option::expect"] += 1
            elif cal.startswith("core::panicking::") or cal.startswith("std::rt::panic") or "panic_fmt" in cal or "unreachable_display" in cal:
                inv["panic/unreachable"] += 1
        for a in f["asserts"]:
            if a["kind"] == "BoundsCheck":
                inv["index/slice bounds"] += 1
    res.inst("M-ERR-UNWRAP:resolved-result-unwraps", True, {"result_unwrap_calls": n})
    res.inst("M-PANIC-INVENTORY", False, inv)
    res.note("panic-capable sites (informational, not a verdict): %s" % inv)


@rule("M-DIV-SITES", engine="mir", floor=1,
      text="every integer division/remainder for which rustc emits a division-by-zero check is one of the sites T-DIV-GUARD examined (same functions, at least as many sites)")
def m_div_sites(mir, res, tier):
    import core
    ast = load_facts(mir.config, mir.repo)
    r = core.Result()
    core.RULES["T-DIV-GUARD"].fn(ast, r, tier)
    examined = {}
    for key, nt, sample in r.instances:
        m = re.match(r"^T-DIV-GUARD:(\w+):", key)
        if m:
            examined[m.group(1)] = examined.get(m.group(1), 0) + 1
    found = {}
    for f in mir.fns:
        for a in f["asserts"]:
            if a["kind"] in ("DivisionByZero", "RemainderByZero"):
                found.setdefault(mir.short(f["path"]), []).append(a)
    for name, lst in sorted(found.items()):
        key = "M-DIV-SITES:%s" % name
        res.inst(key, True, {"function": name, "checked_divisions": len(lst), "examined_by_T-DIV-GUARD": examined.get(name, 0)})
        if examined.get(name, 0) < len(lst):
            res.fail(key, "%s:%s" % (lst[0]["file"], lst[0]["line"]), "%s contains %d division(s) with a run-time zero check but T-DIV-GUARD examined %d" % (name, len(lst), examined.get(name, 0)))
    if not found:
        res.inst("M-DIV-SITES:none", False, {"note": "rustc proved every divisor non-zero"})


NONDET_CALLEES = re.compile(r"^(std::time::|std::env::(var|vars|var_os|args|current_dir|temp_dir)|std::thread::(spawn|current)|std::process::id|rand::|std::collections::hash_map::RandomState::new|std::hash::RandomState::new|<\*(const|mut) .* as std::fmt::Pointer>::fmt)")


@rule("M-NONDET", engine="mir", floor=1,
      text="no function of the crate calls (after trait and path resolution) the clock, the environment, process identity, thread spawning, an explicit random state or pointer formatting")
def m_nondet(mir, res, tier):
    n = 0
    for f in mir.fns:
        for c in f["calls"]:
            n += 1
            if NONDET_CALLEES.match(c["callee"]):
                key = "M-NONDET:%s:%s" % (mir.short(f["path"]), c["callee"])
                res.inst(key)
                res.fail(key, "%s:%s" % (c["file"], c["line"]), "%s calls %s: the output would depend on something other than source and options" % (mir.short(f["path"]), c["callee"]))
    res.inst("M-NONDET:calls-resolved", True, {"calls": n, "functions": len(mir.fns)})
    for s in mir.doc.get("statics", []):
        key = "M-NONDET:static:%s" % s["path"]
        res.inst(key, True, s)
        if s["mut"] or re.search(r"Mutex|RwLock|RefCell|Cell<|Atomic|OnceCell|OnceLock|Lazy", s["ty"]):
            res.fail(key, s["path"], "static %s holds mutable state shared between compilations" % s["path"])


# ----------------------------------------------------------------------------- C16 (byte indices into text)


STRING_INDEX_CALLS = r"^(std::string::String::(truncate|insert|insert_str|remove|split_off|drain|replace_range)|core::str::<impl str>::(split_at|split_at_mut|split_at_checked))$"


@rule("M-CHAR-BOUNDARY", engine="mir", floor=5,
      text="String::truncate / insert / insert_str / remove / split_off / drain / replace_range and str::split_at panic when their byte index is "
           "not on a character boundary.  Every call that resolves to one of them outside the preprocessor (whose slices T-SLICE-BOUNDS decides) takes "
           "an index that is one: a literal k under a dominating `starts_with(<ASCII literal of at least k bytes>)` on the same text, or a value the "
           "text itself delivered (len(), find(..), char_indices()), or a literal moved down under `is_char_boundary`.  Source text may hold any UTF-8 "
           "(comments, strings, the listing of --insert_code)")
def m_char_boundary(mir, res, tier):
    from astlib import load_facts, walk, expr_text
    from scopes import scoped
    facts = load_facts(mir.config, mir.repo)
    n = 0
    for f in mir.fns:
        for c in f["calls"]:
            m = re.match(STRING_INDEX_CALLS, c["callee"])
            if not m or c["file"].endswith("cpp.rs") or "/tests/" in c["file"] or c["file"].endswith("lib.rs"):
                continue
            meth = m.group(2) or m.group(3)
            fname = mir.short(f["path"])
            # (the syntax-tree facts are cached by tree content and may carry the path of another copy of the same tree: compare by suffix)
            cands = [g for g in facts.fns if g["name"] == fname and (g["file"] == c["file"] or g["file"].endswith("/" + c["file"]))]
            site = None
            # the k-th resolved call of this method in the function is the k-th call of that name in its syntax tree (a call that spans
            # several lines is not reported on the same line by the two extractors)
            same = sorted([x for x in f["calls"] if x["callee"] == c["callee"]], key=lambda x: (x["line"], x.get("col", 0)))
            kth = same.index(c)
            for g in cands:
                nodes = [(node, env, doms) for node, env, doms in scoped(g) if node.get("k") == "mcall" and node["method"] == meth]
                nodes.sort(key=lambda t: tuple(int(v) for v in str(t[0].get("loc", "0:0")).split(":")))
                exact = [t for t in nodes if str(t[0].get("loc", "")).split(":")[0] == str(c["line"])]
                if len(exact) == 1:
                    site = (g,) + exact[0]
                elif len(nodes) == len(same):
                    site = (g,) + nodes[kth]
            n += 1
            if site is None:
                res.fail("M-CHAR-BOUNDARY:%s:%s:unlocated" % (fname, meth), "%s:%s" % (c["file"], c["line"]), "cannot find the %s call of %s in the syntax tree" % (meth, fname))
                continue
            g, node, env, doms = site
            idx = node["args"][0] if node.get("args") else None
            recv = expr_text(node["recv"]).replace(" ", "")
            it = expr_text(idx).replace(" ", "") if idx is not None else "?"
            key = "M-CHAR-BOUNDARY:%s:%s(%s)" % (fname, meth, it[:20])
            ok = None
            if idx is not None and idx.get("k") == "lit" and isinstance(idx.get("v"), int):
                k = idx["v"]
                if k == 0:
                    # index 0 is a boundary; remove(0) needs a first character that is one byte: an ASCII starts_with test
                    if meth != "remove":
                        ok = "index 0"
                for d in doms:
                    if d[0] == "cond" and d[2]:
                        for y in walk(d[1]):
                            if y.get("k") == "mcall" and y["method"] == "starts_with" and y.get("args") and y["args"][0].get("k") == "lit" and expr_text(y["recv"]).replace(" ", "") == recv:
                                lit = str(y["args"][0]["v"])
                                if lit.isascii() and len(lit) >= max(k, 1):
                                    ok = "under starts_with(%r)" % lit
                    if d[0] == "cond" and d[2] and "is_char_boundary" in expr_text(d[1]):
                        ok = "under is_char_boundary"
            elif idx is not None:
                names = {x["segs"][0] for x in walk(idx) if x.get("k") == "path" and len(x["segs"]) == 1}
                derived = False
                for nm in names:
                    b = env.get(nm)
                    src = expr_text(b.init) if b is not None and b.init is not None else ""
                    if re.search(r"\.(len|find|rfind|char_indices|floor_char_boundary)\(", src) or "is_char_boundary" in src:
                        derived = True
                    if b is not None and b.src == "let" and any(d[0] == "stmt" and d[1].get("k") in ("while", "loop") and "is_char_boundary" in expr_text(d[1]) and nm in expr_text(d[1]) for d in doms):
                        derived = True
                if re.search(r"\.(len|find|rfind)\(", it):
                    derived = True
                if derived:
                    ok = "index delivered by the text itself / moved onto a boundary"
            res.inst(key, True, {"function": fname, "call": "%s.%s(%s)" % (recv[:30], meth, it[:30]), "boundary_because": ok})
            if ok is None:
                res.fail(key, facts.where(g, node), "%s calls `%s.%s(%s)`: nothing puts byte %s on a character boundary of that text, and a multi-byte character across it makes the call panic (a listing line of more than 256 bytes with an accented letter at byte 255)" % (fname, recv[:30], meth, it[:30], it[:30]))
    res.note("%d String/str calls taking a byte index" % n)
