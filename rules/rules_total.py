"""C16 (totality) rules other than the tree-walker agreement: Pratt registration, token domains,
error unwraps, line-map indexing, ExprType variant flow into panicking arms."""
import re

from astlib import AnchorMissing, expr_text, pat_text, walk, children, body_is_panic, is_panic_macro
from core import rule
from genmodel import gen_fns, fn_paths, variant_flow, is_error_exit, domain_of, GEN_QUAL
from rules_tables import pratt_tables
from rules_literals import closure_arg, rule_arms
from walker import Sym, EnumV, Const, Unknown

BUILTIN_DIGITS = {"ASCII_DIGIT", "ASCII_NONZERO_DIGIT", "ASCII_HEX_DIGIT", "ASCII_OCT_DIGIT", "ASCII_BIN_DIGIT"}


def grammar_op_sets(rules, rule_name):
    """(prefix, infix, postfix, primary-silent-rule) rule-name sets of a Pratt-style grammar rule."""
    r = rules.get(rule_name)
    if r is None:
        raise AnchorMissing("grammar rule `%s` not found" % rule_name)
    def flat_seq(e):
        if e["k"] == "seq":
            return flat_seq(e["a"]) + flat_seq(e["b"])
        return [e]
    def choice_idents(name):
        rr = rules.get(name)
        if rr is None:
            return set()
        out = set()
        def go(e):
            if e["k"] == "choice":
                go(e["a"])
                go(e["b"])
            elif e["k"] == "ident":
                if rules.get(e["v"], {}).get("ty") == "silent":
                    out.update(choice_idents(e["v"]))
                else:
                    out.add(e["v"])
        go(rr["expr"])
        return out
    items = flat_seq(r["expr"])
    prefix, infix, postfix = set(), set(), set()
    seen_primary = False
    for it in items:
        if it["k"] == "rep" and it["e"]["k"] == "ident":
            (postfix if seen_primary else prefix).update(choice_idents(it["e"]["v"]))
        elif it["k"] == "ident":
            seen_primary = True
        elif it["k"] == "rep" and it["e"]["k"] == "seq":
            inner = flat_seq(it["e"])
            if inner and inner[0]["k"] == "ident":
                infix.update(choice_idents(inner[0]["v"]))
    return prefix, infix, postfix


PRATT_BINDING = {"expr": ("pratt", "parse_expr_ex"), "expr_init_value": ("pratt_init_value", "parse_expr_init_value_ex"), "calc_expr": ("calculator", "parse_calc")}


@rule("T-PRATT-TOTAL", floor=60,
      text="every operator rule the grammar admits in prefix/infix/postfix position of expr, expr_init_value and calc_expr is registered with that affix in the Pratt table used for that rule, and has an arm in the corresponding map_* callback (pest's PrattParser panics on an unregistered or wrongly-affixed operator; the callbacks panic on a missing arm)")
def t_pratt_total(facts, res, tier):
    rules = facts.grammar_rules()
    tables, cfn = pratt_tables(facts)
    for grule, (tname, fname) in PRATT_BINDING.items():
        if tname not in tables:
            raise AnchorMissing("Pratt table `%s` not found" % tname)
        levels, node = tables[tname]
        reg = {}
        for ops in levels:
            for (af, r, a) in ops:
                reg.setdefault(r, set()).add(af)
        gp, gi, go = grammar_op_sets(rules, grule)
        fn = facts.fn(fname, "CompilerState")
        uses = [n for n in walk(fn["body"]) if n.get("k") == "field" and n["name"] == tname]
        if not uses:
            raise AnchorMissing("%s does not use table `%s`" % (fname, tname))
        arms = {}
        for af, meth in (("infix", "map_infix"), ("prefix", "map_prefix"), ("postfix", "map_postfix")):
            c = closure_arg(fn, meth)
            arms[af] = rule_arms(c)[1] if c is not None else None
        for af, gset in (("prefix", gp), ("infix", gi), ("postfix", go)):
            for r in sorted(gset):
                key = "T-PRATT-TOTAL:%s:%s:%s" % (grule, af, r)
                res.inst(key, True, {"grammar_rule": grule, "operator": r, "position": af, "registered_as": sorted(reg.get(r, []))})
                if af not in reg.get(r, set()):
                    if reg.get(r):
                        res.fail(key, facts.where(cfn, node), "grammar rule `%s` admits `%s` in %s position but table `%s` registers it only as %s: PrattParser panics on such input" % (grule, r, af, tname, "/".join(sorted(reg[r]))))
                    else:
                        res.fail(key, facts.where(cfn, node), "grammar rule `%s` admits the %s operator `%s` but table `%s` does not register it: the operator reaches map_primary and panics" % (grule, af, r, tname))
                    continue
                a = arms.get(af)
                if a is None:
                    res.fail(key, facts.where(fn), "%s has no %s callback although `%s` is a %s operator" % (fname, af, r, af))
                elif r not in a:
                    res.fail(key, facts.where(fn), "%s: the %s callback has no arm for `%s` (falls into the panicking default arm)" % (fname, af, r))
        # registered but not in grammar: harmless, note only
        extra = {r for r in reg} - gp - gi - go
        if extra:
            res.note("table %s registers operators the grammar never produces for %s: %s" % (tname, grule, sorted(extra)))
    res.exhaustive = True


# ----------------------------------------------------------------------------- token domains


def token_shape(rules, name, depth=0):
    """(min_len, max_len or None, repeated_sign: bool, digit_kind) of an atomic token rule."""
    r = rules[name]
    def go(e):
        k = e["k"]
        if k in ("str", "insens"):
            return (len(e["v"]), len(e["v"]), False)
        if k == "range":
            return (1, 1, False)
        if k == "ident":
            if e["v"] in BUILTIN_DIGITS or e["v"] in ("ANY", "ASCII_ALPHA", "ASCII_ALPHANUMERIC"):
                return (1, 1, False)
            if e["v"] in rules and depth < 5:
                return go(rules[e["v"]]["expr"])
            return (0, 0, False)
        if k in ("pospred", "negpred"):
            return (0, 0, False)
        if k == "seq":
            a, b = go(e["a"]), go(e["b"])
            return (a[0] + b[0], None if a[1] is None or b[1] is None else a[1] + b[1], a[2] or b[2])
        if k == "choice":
            a, b = go(e["a"]), go(e["b"])
            return (min(a[0], b[0]), None if a[1] is None or b[1] is None else max(a[1], b[1]), a[2] or b[2])
        if k == "opt":
            a = go(e["e"])
            return (0, a[1], a[2])
        if k in ("rep", "rep1"):
            a = go(e["e"])
            sign = e["e"]["k"] == "str" and e["e"]["v"] in ("-", "+")
            return (0 if k == "rep" else a[0], None if (a[1] or 0) > 0 or a[1] is None else 0, a[2] or sign)
        if k == "repn":
            a = go(e["e"])
            mx = e.get("max")
            sign = e["e"]["k"] == "str" and e["e"]["v"] in ("-", "+") and (mx is None or mx > 1)
            return (a[0] * (e.get("min") or 0), None if mx is None or a[1] is None else a[1] * mx, a[2] or sign)
        return (0, 0, False)
    return go(r["expr"])


CAPACITY = {("i32", 10): 9, ("u32", 10): 9, ("usize", 10): 19, ("i32", 16): 7, ("i32", 8): 10, ("u8", 10): 2, ("u32", 16): 8}


@rule("T-TOKEN-DOMAIN", floor=6,
      text="every conversion of input text to an integer (`.parse::<T>()`, `from_str_radix`) either has its failure handled (ok(), map_err(..)?, a match) or, where the result is unwrapped, converts a grammar token every string of which lies in the conversion's domain: one optional sign at most and a digit count that cannot overflow T")
def t_token_domain(facts, res, tier):
    rules = facts.grammar_rules()
    def first_child_tokens(rname):
        # rules that can be the first inner pair of rname (shallow: direct idents of non-silent rules)
        out = set()
        def go(e):
            if e["k"] == "ident":
                if e["v"] in rules:
                    if rules[e["v"]]["ty"] == "silent":
                        go(rules[e["v"]]["expr"])
                    else:
                        out.add(e["v"])
            elif e["k"] in ("seq",):
                go(e["a"])
                # only continue to b if a yields no pair
                before = len(out)
                if not pairs_possible(e["a"]):
                    go(e["b"])
            elif e["k"] == "choice":
                go(e["a"])
                go(e["b"])
            elif e["k"] in ("opt", "rep", "rep1", "repn", "push"):
                go(e["e"])
        def pairs_possible(e):
            if e["k"] == "ident":
                return e["v"] in rules and (rules[e["v"]]["ty"] != "silent" or pairs_possible(rules[e["v"]]["expr"]))
            if e["k"] in ("seq", "choice"):
                return pairs_possible(e["a"]) or pairs_possible(e["b"])
            if e["k"] in ("opt", "rep", "rep1", "repn", "push"):
                return pairs_possible(e["e"])
            return False
        go(rules[rname]["expr"])
        return out
    def want0(n):
        if n.get("k") == "mcall" and n["method"] == "parse" and n.get("turbofish"):
            return True
        if n.get("k") == "call" and expr_text(n["func"]).endswith("from_str_radix"):
            return True
        return False
    for fn in facts.fns:
        found = []
        from rules_opt import guards_walk
        unwrapped = {}
        _parent = {id(n["recv"]): n for n in walk(fn["body"]) if n.get("k") == "mcall"}
        for n in walk(fn["body"]):
            if want0(n):
                # climb the method chain `conv.ok().and_then(..).unwrap()`: an unwrap anywhere in it
                cur, hops = n, 0
                while id(cur) in _parent and hops < 8:
                    cur = _parent[id(cur)]
                    hops += 1
                    if cur["method"] in ("unwrap", "expect", "unwrap_unchecked"):
                        unwrapped[id(n)] = cur
                        break
                    if cur["method"] in ("ok_or", "ok_or_else", "map_err", "unwrap_or", "unwrap_or_default", "unwrap_or_else"):
                        break
        consumer = {}
        for n in walk(fn["body"]):
            if n.get("k") == "mcall":
                consumer[id(n["recv"])] = n["method"]
            elif n.get("k") == "try":
                consumer[id(n["e"])] = "?"
        def want(n):
            if n.get("k") == "mcall" and n["method"] == "parse" and n.get("turbofish"):
                return True
            if n.get("k") == "call" and expr_text(n["func"]).endswith("from_str_radix"):
                return True
            return False
        guards_walk(fn["body"], [], found, want)
        nchecked = 0
        for r, guards in found:
            node = unwrapped.get(id(r))
            if node is None:
                # the conversion's failure is handled (ok(), map_err(..)?, match ..): nothing to prove about the token
                nchecked += 1
                ty = re.sub(r"[:<>\s]", "", r["turbofish"]) if r.get("k") == "mcall" else expr_text(r["func"]).split("::")[0]
                res.inst("T-TOKEN-DOMAIN:%s:handled:%s#%d" % (fn["name"], ty, nchecked), True,
                         {"function": fn["name"], "conversion": expr_text(r)[:80], "failure_goes_to": consumer.get(id(r), "(value used as a Result)")})
                continue
            if r.get("k") == "mcall":
                ty = re.sub(r"[:<>\s]", "", r["turbofish"])
                radix = 10
                src = r["recv"]
            else:
                ty = expr_text(r["func"]).split("::")[0]
                radix = r["args"][1]["v"] if r["args"][1].get("k") == "lit" else None
                src = r["args"][0]
            st = expr_text(src)
            # which grammar rule does the text come from?
            arm_rules = []
            for g, pol in guards:
                m = re.match(r"^(\w+)\.as_rule\(\) is (.+)$", g)
                if m and pol:
                    arm_rules.append((m.group(1), [x.split("::")[-1] for x in m.group(2).split("|")]))
            tokens = set()
            if arm_rules:
                var, rs = arm_rules[-1]
                depth = st.count(".into_inner().next().unwrap()")
                cur = set(rs)
                for _ in range(depth):
                    nxt = set()
                    for x in cur:
                        if x in rules:
                            nxt |= first_child_tokens(x)
                    cur = nxt
                tokens = cur
            if not tokens:
                import rules_treewalk
                tw = rules_treewalk.treewalk(facts)
                for x in walk(src):
                    if x.get("k") == "mcall" and x["method"] == "as_str" and id(x) in tw.asstr:
                        tokens |= set(tw.asstr[id(x)][1])
            if not tokens:
                key = "T-TOKEN-DOMAIN:%s:%s" % (fn["name"], st[:40])
                res.inst(key)
                res.fail(key, facts.where(fn, node), "cannot determine which grammar token `%s` is converted here" % st)
                continue
            for tok in sorted(tokens):
                key = "T-TOKEN-DOMAIN:%s:%s:%s" % (fn["name"], tok, ty)
                mn, mx, sign = token_shape(rules, tok)
                res.inst(key, True, {"token": tok, "type": ty, "radix": radix, "min_len": mn, "max_len": mx, "repeated_sign": sign})
                cap = CAPACITY.get((ty, radix))
                if sign:
                    res.fail(key, facts.where(fn, node), "token `%s` admits several sign characters; `%s` conversion of such text fails and the result is unwrapped" % (tok, ty))
                elif mx is None:
                    res.fail(key, facts.where(fn, node), "token `%s` admits arbitrarily many digits; values that do not fit %s make the unwrapped conversion panic" % (tok, ty))
                elif cap is not None and mx > cap + (2 if radix == 16 else 0) + 1:
                    res.fail(key, facts.where(fn, node), "token `%s` admits up to %d characters, more than %s can hold" % (tok, mx, ty))


# ----------------------------------------------------------------------------- Result unwraps


@rule("T-ERR-UNWRAP", floor=1,
      text="no value of type Result<_, crate::error::Error> is consumed by unwrap/expect: in the Pratt callbacks whose operands are Results (parse_calc, parse_expr_ex, parse_expr_init_value_ex) operands are propagated with `?`, and no call to a crate function returning Result<_, Error> is unwrapped")
def t_err_unwrap(facts, res, tier):
    result_fns = {f["name"] for f in facts.fns if re.match(r"^Result\s*<.*,\s*(crate\s*::\s*)?(error\s*::\s*)?Error\s*>$", f["ret"].strip())}
    n = 0
    for fn in facts.fns:
        # (1) Pratt callbacks
        prim = closure_arg(fn, "map_primary")
        if prim is not None:
            for meth in ("map_infix", "map_prefix", "map_postfix"):
                c = closure_arg(fn, meth)
                if c is None:
                    continue
                params = [p.get("name") for p in c["params"] if p.get("k") == "ident"]
                operand_names = [p for p in params if p in ("lhs", "rhs")]
                m, arms = rule_arms(c)
                bodies = arms.items() if arms else [("*", c["body"])]
                for rname, body in bodies:
                    key = "T-ERR-UNWRAP:%s:%s:%s" % (fn["name"], meth, rname)
                    n += 1
                    bad = [x for x in walk(body) if x.get("k") == "mcall" and x["method"] in ("unwrap", "expect") and x["recv"].get("k") == "path" and x["recv"]["segs"][0] in operand_names]
                    res.inst(key, True, {"unwraps": len(bad)})
                    if bad:
                        res.fail(key, facts.where(fn, bad[0]), "%s: the `%s` operator callback unwraps its operand `%s`, which is an Err when a sub-expression was rejected (e.g. a division by zero further left): the error becomes a panic" % (fn["name"], rname, expr_text(bad[0]["recv"])))
        # (2) direct unwrap of a crate Result
        for x in walk(fn["body"]):
            if x.get("k") == "mcall" and x["method"] in ("unwrap", "expect"):
                r = x["recv"]
                callee = None
                if r.get("k") == "mcall" and r["method"] in result_fns:
                    callee = r["method"]
                elif r.get("k") == "call" and r["func"].get("k") == "path" and r["func"]["segs"][-1] in result_fns:
                    callee = r["func"]["segs"][-1]
                if callee:
                    key = "T-ERR-UNWRAP:%s:call:%s" % (fn["name"], callee)
                    res.inst(key)
                    res.fail(key, facts.where(fn, x), "%s unwraps the Result of %s(): a reported error becomes a panic" % (fn["name"], callee))
    res.note("%d operator callbacks checked; %d crate functions return Result<_, Error>" % (n, len(result_fns)))


# ----------------------------------------------------------------------------- line-map indexing


@rule("T-LOC-INDEX", floor=4,
      text="every index into the preprocessor's line map (syntax_error, compiler_error, warning, compile()'s parse-error arm, the --insert_code listing) is bounded for every input: guarded by a comparison with the map's length, or clamped to len()-1 after an emptiness test that leaves the function, or taken through `get`; and the offset-to-line loop stops at the requested offset including offset 0")
def t_loc_index(facts, res, tier):
    from rules_opt import guards_walk
    n_get = 0
    for fn in facts.fns:
        found = []
        guards_walk(fn["body"], [], found, lambda n: n.get("k") == "index" and "mapped_lines" in expr_text(n["base"]))
        gets = [n for n in walk(fn["body"]) if n.get("k") == "mcall" and n["method"] == "get" and "mapped_lines" in expr_text(n["recv"])]
        for g in gets:
            n_get += 1
            res.inst("T-LOC-INDEX:%s:get(%s)" % (fn["name"], expr_text(g["args"][0])), True, {"accessor": "get"})
        if not found:
            continue
        lets = {}
        for n in walk(fn["body"]):
            if n.get("k") == "let" and n["pat"].get("k") == "ident" and "init" in n:
                lets.setdefault(n["pat"]["name"], []).append(expr_text(n["init"]).replace(" ", ""))
        groups = {}
        for node, guards in found:
            groups.setdefault((expr_text(node["base"]), expr_text(node["idx"])), []).append((node, guards))
        for (mt, it), lst in sorted(groups.items()):
            node = lst[0][0]
            key = "T-LOC-INDEX:%s:[%s]" % (fn["name"], it)
            # emptiness test that leaves the function
            nonempty = False
            for n in walk(fn["body"]):
                if n.get("k") == "if" and expr_text(n["cond"]).replace(" ", "") == "%s.is_empty()" % mt and "return" in expr_text(n["then"]):
                    nonempty = True
            all_ok = True
            why = ""
            for nd, gs in lst:
                ok = False
                plain = it.strip("()")
                for g, pol in gs:
                    gt = g.replace(" ", "").replace("(", "").replace(")", "")
                    if pol and gt == "%s<%s.len" % (plain, mt):
                        ok = True
                m = re.match(r"^(\w+)-1$", plain)
                var = m.group(1) if m else plain
                inits = lets.get(var, [])
                if not ok and m:
                    # (X-1): X = M.len()  or  X = _.min(M.len())   -- needs a non-empty map
                    if any(i == "%s.len()" % mt or i.endswith(".min(%s.len())" % mt) for i in inits):
                        ok = nonempty
                        if not ok:
                            why = " (len()-1 underflows on an empty map)"
                if not ok and not m:
                    if any(i.endswith(".min((%s.len()-1))" % mt) or i.endswith(".min(%s.len()-1)" % mt) for i in inits):
                        ok = nonempty
                        if not ok:
                            why = " (len()-1 underflows on an empty map)"
                if not ok:
                    all_ok = False
            res.inst(key, True, {"function": fn["name"], "index": it, "sites": len(lst), "bounded": all_ok, "emptiness_test": nonempty})
            if not all_ok:
                res.fail(key, facts.where(fn, node), "%s indexes the line map with `%s` without a bound that holds for every input%s: offset 0, an empty map, or a position past the last mapped line panics instead of producing an error" % (fn["name"], it, why))
    # the offset -> line loops: the stop test must come before the character is counted
    for fname in ("syntax_error", "compiler_error", "warning"):
        fn = facts.fn(fname, "CompilerState")
        key = "T-LOC-INDEX:%s:offset-loop" % fname
        res.inst(key)
        ok = False
        for n in walk(fn["body"]):
            if n.get("k") == "for" and "chars()" in expr_text(n["iter"]):
                st = n["body"]["stmts"]
                if st and st[0].get("k") == "if" and "break" in expr_text(st[0]["then"]) and "==loc" in expr_text(st[0]["cond"]).replace(" ", "").replace("(", "").replace(")", ""):
                    ok = True
                # or an explicit `loc == 0` treatment before the loop
        if not ok:
            t = expr_text(fn["body"]).replace(" ", "")
            if "loc==0" in t:
                ok = True
        if not ok:
            res.fail(key, facts.where(fn), "%s: for offset 0 the offset-to-line loop never meets its stop test and runs to the end of the text (reports the last line, or indexes past the map)" % fname)


# ----------------------------------------------------------------------------- variant flow into panicking arms


@rule("T-VARIANT-FLOW", floor=3,
      text="in the generator, no ExprType variant that can reach a value (by the interprocedural variant-flow analysis over constructors, returns, parameters and the two fields that store operands) lands in a panicking arm (unreachable!/panic!) of a `match` on that value")
def t_variant_flow(facts, res, tier):
    from rules_opt import guards_walk
    RS, PS, FS, variants_of = variant_flow(facts)
    allv = set(facts.enum_variants("ExprType"))
    seen = set()
    n_arms = 0
    n_other = 0
    for fn in gen_fns(facts):
        if fn["name"] == "new":
            continue
        # panic node -> innermost enclosing match scrutinee
        scrut = {}
        def visit(node, cur):
            k = node.get("k")
            if is_panic_macro(node):
                scrut[id(node)] = cur
            if k == "match":
                visit(node["e"], cur)
                for arm in node["arms"]:
                    visit(arm["body"], (node["e"], arm["pat"]))
                return
            for c in children(node):
                visit(c, cur)
        visit(fn["body"], None)
        for kind, value, st in fn_paths(facts, fn):
            if not (isinstance(value, EnumV) and value.enum == "!"):
                continue
            pan = [e for e in st.events if e["kind"] == "panic"]
            if not pan:
                continue
            node = pan[-1]["node"]
            cur = scrut.get(id(node))
            if cur is None:
                n_other += 1
                continue
            sc, pat = cur
            sct = expr_text(sc)
            v = st.env.get(sct)
            if v is None and sc.get("k") == "path":
                v = st.env.get(sc["segs"][0])
            if not (isinstance(v, Sym) and v.ty == "ExprType"):
                n_other += 1
                continue  # the panic is decided by something else (an Operation, a Rule, ...)
            n_arms += 1
            vs = variants_of(v, st, fn["name"]) or set()
            key = "T-VARIANT-FLOW:%s:%s:%s" % (fn["name"], sct, pat_text(pat))
            if key in seen:
                continue
            seen.add(key)
            res.inst(key, bool(vs), {"function": fn["name"], "match_on": sct, "arm": pat_text(pat), "variants_reaching_arm": sorted(vs)})
            if vs:
                res.fail(key, facts.where(fn, node), "%s: `match %s` has a panicking arm `%s`, and %s can reach it" % (
                    fn["name"], sct, pat_text(pat), ", ".join("ExprType::" + x for x in sorted(vs))))
    res.note("%d panicking arms on ExprType values examined, %d panicking paths decided by other values (not analysed)" % (n_arms, n_other))
