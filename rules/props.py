"""Property -> rules mapping (see DESIGN.md section 4)."""
from core import prop, EXPLAIN, ASSUME
import rules_asm  # noqa

prop("C04", ["T-ASM-SIZE", "T-HANDBUILT", "T-ASMLINE-SIBLINGS", "T-OPT-SIZE"])
prop("C13", ["T-ASM-MODE"])
prop("C17", ["T-ASM-PORT"])
import rules_tables  # noqa
prop("C01", ["T-PREC", "T-BRANCH", "T-CMPXFORM"])
prop("C03", ["T-LB-EQUIV", "T-LB-RANGE", "T-ASMLINE-SIBLINGS", "T-HANDBUILT", "T-CMPXFORM"])
