"""Property -> rules mapping (see DESIGN.md section 4)."""
from core import prop, EXPLAIN, ASSUME
import rules_asm  # noqa

prop("C04", ["T-ASM-SIZE", "T-HANDBUILT", "T-ASMLINE-SIBLINGS", "T-OPT-SIZE", "T-ZP-THRESHOLD", "T-INLINE-COPY"])


import rules_tables  # noqa

prop("C03", ["T-LB-EQUIV", "T-LB-RANGE", "T-ASMLINE-SIBLINGS", "T-HANDBUILT", "T-CMPXFORM", "T-ASM-SIZE", "T-INLINE-COPY"])
import rules_literals  # noqa
prop("C09", ["T-ESC", "T-STR-NUL", "T-CPP-SCAN-SIBLINGS", "T-LITERAL-PAIR"])
import rules_cpp  # noqa
prop("C07", ["T-CPP-FSM", "T-CPP-GUARD", "T-CPP-EVAL", "T-CPP-PARALLEL"])
prop("C08", ["T-CPP-REGEX", "T-CPP-PARALLEL", "T-CPP-D", "T-CPP-DEFINE-SYNTAX"])
prop("C06", ["T-LINEMAP", "T-ERR-SOURCE", "T-LOC-SIBLINGS", "T-OFFSET-LINE", "T-LOC-INDEX", "T-CTX-RESTORE"])
import rules_opt  # noqa
prop("C02", ["T-OPT-PROT", "T-OPT-KILL", "T-OPT-BARRIER", "T-OPT-PEEK", "T-INLINE-COPY", "T-OPT-SIZE"])
prop("C14", ["T-INLINE-COPY", "T-INLINE-LABELS", "T-LABEL-KILL", "T-LABEL-UNIQUE", "T-OPT-KILL", "T-OPT-BARRIER"])
prop("C18", ["T-CSLEEP", "T-DUMMY-ZP", "T-PROTECT-REGION", "T-OPT-PROT", "T-OPT-BARRIER", "T-FLAGS-DIRTY", "T-SECOND-PASS"])
prop("C10", ["T-PREC", "T-CALC-OPS", "T-FOLD", "T-DIV-GUARD", "T-SIZEOF", "M-DIV-SITES"])
import rules_total  # noqa
import rules_treewalk  # noqa
prop("C16", ["T-TREEWALK", "T-PRATT-TOTAL", "T-TOKEN-DOMAIN", "T-ERR-UNWRAP", "T-LOC-INDEX", "T-VARIANT-FLOW", "T-DIV-GUARD", "T-INUSE-CLOSURE", "T-LOOP-EXIT-SIBLINGS", "T-LOOP-PROGRESS", "T-REC-BOUND", "M-ERR-UNWRAP", "M-DIV-SITES", "T-COUNTER-RESET", "T-CPP-UNWRAP"])
import rules_misc  # noqa
prop("C12", ["T-CALL-EMIT", "T-CALL-RECORD", "T-CALL-WRITERS", "T-INUSE-CLOSURE"])
prop("C11", ["T-OPTION-CONFINE", "T-ASMLINE-SIBLINGS", "T-CPP-SCAN-SIBLINGS", "T-OPT-PEEK", "T-LISTING-FORMAT"])
prop("C05", ["T-HASH-ITER", "T-ORDER-FRESH", "T-NONDET-API", "M-HASH-SITES", "M-NONDET"])
prop("C15", ["T-CMPXFORM", "T-FLAGS-DIRTY", "T-LABEL-KILL", "T-LB-EQUIV", "T-OPT-KILL", "T-OPT-BARRIER", "T-FLAGS-JOIN", "T-NZ-PRECOND"])
import rules_flow  # noqa
import rules_mir  # noqa
import rules_term  # noqa
import rules_r3  # noqa
import rules_nz  # noqa
prop("C01", ["T-PREC", "T-BRANCH", "T-CMPXFORM", "T-STACK-PAIR", "T-FLAGS-DIRTY", "T-FLAGS-VALUE", "T-LABEL-KILL", "T-OPT-KILL", "T-OPT-BARRIER", "T-OPT-PROT", "T-OPT-PEEK", "T-LB-EQUIV", "T-INLINE-COPY", "T-CARRY-SCOPE", "T-DEFERRED-BRANCH", "T-FLAGS-JOIN", "T-NZ-PRECOND", "T-SECOND-PASS"])
prop("C13", ["T-ASM-MODE", "T-LABEL-UNIQUE", "T-LABEL-DEF", "T-CONTINUE-FLAG", "T-LOOP-EXIT-SIBLINGS", "T-INLINE-LABELS", "T-HANDBUILT", "T-INUSE-CLOSURE", "T-CALL-RECORD", "T-GOTO-LABELS"])
prop("C17", ["T-ASM-PORT", "T-RMW-GUARD", "T-OPT-KILL"])
