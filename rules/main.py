import argparse
import os
import sys

sys.path.insert(0, os.path.dirname(os.path.abspath(__file__)))
import core  # noqa
import props  # noqa  (registers rules and properties)


def main():
    ap = argparse.ArgumentParser()
    ap.add_argument("prop")
    ap.add_argument("--tier", default=os.environ.get("VERIF_TIER", "quick"), choices=["quick", "thorough"])
    ap.add_argument("--replay", default=None)
    a = ap.parse_args()
    if a.prop == "all":
        rc = 0
        for p in sorted(core.PROPS):
            rc |= core.check_property(p, a.tier)
        sys.exit(rc)
    sys.exit(core.check_property(a.prop, a.tier, a.replay))


if __name__ == "__main__":
    main()
