"""Shared model of the code generator (impl GeneratorState): per-function path
enumeration with emission events, field-modification summaries, asm() decision table."""
import json
import os

from astlib import AnchorMissing, expr_text, walk, VERIF
from walker import (Walker, Const, EnumV, Sym, Fmt, Tup, Unknown, StructV, BinOp, Outcome, State, norm_ty, PathLimit)

with open(os.path.join(VERIF, "ref", "6502.json")) as _fh:
    ISA = json.load(_fh)
MN = ISA["mnemonics"]
BRANCHES = [m for m, d in MN.items() if d["kind"] == "branch"]

GEN_QUAL = "GeneratorState"
EMITTERS = {"asm", "sasm", "sasm_protected", "label", "inline", "comment", "dummy", "asm_save_y", "asm_restore_y", "push_code"}

_cache = {}
import re as _re0
_re_field = _re0.compile(r"^self\.(\w+)(?:@\d+)?\.")


def gen_fns(facts):
    return [f for f in facts.fns if GEN_QUAL in f["qual"]]


def self_method_calls(node):
    for n in walk(node):
        if n.get("k") == "mcall" and n["recv"].get("k") == "path" and n["recv"]["segs"] == ["self"]:
            yield n


MUTATING_CONTAINER_METHODS = {"push", "pop", "insert", "remove", "clear", "take", "append", "truncate", "retain", "extend", "get_mut", "last_mut", "iter_mut", "push_str", "next"}


def direct_mods(fn):
    """Fields of self assigned (or mutated through a container method) directly in fn."""
    mods = set()
    for n in walk(fn["body"]):
        k = n.get("k")
        if k in ("assign", "assignop"):
            l = n["l"]
            # self.f = ..  /  self.f.g = .. / self.loops.last_mut().unwrap().2 = ..
            base = l
            while base.get("k") in ("field", "index", "mcall", "unary", "ref"):
                if base.get("k") == "field" and base["base"].get("k") == "path" and base["base"]["segs"] == ["self"]:
                    mods.add(base["name"])
                    break
                base = base.get("base") or base.get("recv") or base.get("e")
                if base is None:
                    break
        if k == "mcall" and n["method"] in MUTATING_CONTAINER_METHODS:
            r = n["recv"]
            while r.get("k") in ("mcall", "field", "index", "ref", "unary", "try"):
                if r.get("k") == "field" and r["base"].get("k") == "path" and r["base"]["segs"] == ["self"]:
                    mods.add(r["name"])
                    break
                r = r.get("recv") or r.get("base") or r.get("e")
                if r is None:
                    break
    return mods


def mod_summaries(facts):
    key = ("mods", id(facts))
    if key in _cache:
        return _cache[key]
    fns = {f["name"]: f for f in gen_fns(facts)}
    mods = {name: direct_mods(f) for name, f in fns.items()}
    calls = {name: {c["method"] for c in self_method_calls(f["body"]) if c["method"] in fns} for name, f in fns.items()}
    changed = True
    while changed:
        changed = False
        for name in fns:
            for c in calls[name]:
                new = mods[c] - mods[name]
                if new:
                    mods[name] |= new
                    changed = True
    _cache[key] = (mods, calls)
    return mods, calls


class GenWalker(Walker):
    """Walker specialised for GeneratorState methods: `self.f` reads are versioned
    per field, and a call to a &mut self method invalidates exactly the fields the
    callee (transitively) assigns."""

    def __init__(self, facts, fn, **kw):
        super().__init__(facts, fn, **kw)
        self.mods, self.calls = mod_summaries(facts)
        self.gen_struct = facts.structs.get("GeneratorState")

    def ev_field(self, n, state):
        if n["base"].get("k") == "path" and n["base"]["segs"] == ["self"]:
            name = n["name"]
            text = "self." + name
            if text in state.env:
                return [Outcome("val", state, state.env[text])]
            ep = state.notes.get("ep:" + name, 0)
            ty = self.field_type("GeneratorState", name)
            return [Outcome("val", state, Sym("%s@%d" % (text, ep), ty))]
        return super().ev_field(n, state)

    def havoc(self, st, fields):
        for f in fields:
            st.env.pop("self." + f, None)
            st.notes["ep:" + f] = st.notes.get("ep:" + f, 0) + 1


def emission_hook(w, st, node, name, recv, args):
    """Record emission events; havoc fields modified by callee."""
    if node.get("k") != "mcall":
        return None
    r = node["recv"]
    is_self = r.get("k") == "path" and r["segs"] == ["self"]
    if not is_self:
        return None
    if name in EMITTERS:
        prot = st.env.get("self.protected")
        if prot is None:
            prot = Sym("self.protected@%d" % st.notes.get("ep:protected", 0), "bool")
        ev = {"kind": name, "node": node, "args": list(args), "protected": prot}
        # what is known, at this point of the path, about the register / cctmp ownership flags
        know = {}
        for fld in ("acc_in_use", "tmp_in_use", "saved_y"):
            v = st.env.get("self." + fld)
            if isinstance(v, Const):
                know[fld] = {v.v}
            else:
                kk = "self.%s@%d" % (fld, st.notes.get("ep:" + fld, 0))
                a, e2 = st.cons.get(kk, (None, frozenset()))
                know[fld] = set(a) if a is not None else ({True, False} - set(e2))
        ev["know"] = know
        ev["ver"] = {fld: st.notes.get("ep:" + fld, 0) for fld in ("acc_in_use", "tmp_in_use", "saved_y")}
        ev["assigned"] = {fld: isinstance(st.env.get("self." + fld), Const) for fld in ("acc_in_use", "tmp_in_use", "saved_y")}
        if name == "sasm_protected":
            ev["protected"] = Const(True)
        st.events.append(ev)
        if name == "label":
            w.havoc(st, ["flags", "carry_flag_ok"])
        if name == "push_code":
            w.havoc(st, ["inline_label_counter"])
        rt = w.method_ret(name)
        return Sym("ret:" + name, rt)
    if name in w.mods:
        prot = st.env.get("self.protected")
        if prot is None:
            prot = Sym("self.protected@%d" % st.notes.get("ep:protected", 0), "bool")
        st.events.append({"kind": "call", "node": node, "callee": name, "args": list(args), "protected": prot})
        w.havoc(st, w.mods[name])
        rt = w.method_ret(name)
        return Sym("ret%d:%s" % (len(st.events), name), rt)
    return None


def container_hook(w, st, node, name, recv, args):
    """push/insert into a field of self: remember what was stored."""
    if node.get("k") == "mcall" and name in ("remove", "get", "get_mut", "take", "entry", "cloned", "clone", "drain", "remove_entry"):
        r = node["recv"]
        if r.get("k") == "field" and r["base"].get("k") == "path" and r["base"]["segs"] == ["self"]:
            st.events.append({"kind": "fieldread", "field": r["name"], "method": name, "node": node})
    if node.get("k") == "mcall" and name in ("push", "insert"):
        r = node["recv"]
        if r.get("k") == "field" and r["base"].get("k") == "path" and r["base"]["segs"] == ["self"]:
            st.events.append({"kind": "fieldpush", "field": r["name"], "args": list(args), "node": node})
        else:
            # through an alias obtained from a field of self (e.g. `if let Some(v) = self.f.get_mut(k) { v.push(x) }`)
            txt = recv.text if isinstance(recv, Unknown) else (recv.key if isinstance(recv, Sym) else "")
            m = _re_field.match(txt or "")
            if m:
                st.events.append({"kind": "fieldpush", "field": m.group(1), "args": list(args), "node": node, "via_alias": True})
            elif r.get("k") == "path" and len(r["segs"]) == 1:
                st.events.append({"kind": "localpush", "var": r["segs"][0], "args": list(args), "node": node})
    return None


def predicate_summaries(facts):
    """Free functions (..., &ExprType, ...) -> bool: for which variants of the ExprType argument can
    the result be true?  Computed from the function's own paths."""
    key = ("preds", id(facts))
    if key in _cache:
        return _cache[key]
    out = {}
    allv = set(facts.enum_variants("ExprType"))
    for f in facts.fns:
        if f["qual"] or f["ret"].strip() != "bool":
            continue
        idx = [i for i, p in enumerate(f["params"]) if norm_ty(p["ty"]) == "ExprType"]
        if len(idx) != 1:
            continue
        pname = f["params"][idx[0]]["name"]
        w = Walker(facts, f)
        may_true = set()
        try:
            outs = w.run()
        except PathLimit:
            continue
        for o in outs:
            v = o.value
            if isinstance(v, Const) and v.v is False:
                continue
            d = domain_of(o.state, Sym(pname, "ExprType"), facts, universe=allv)
            may_true |= (d if d is not None else allv)
        out[f["name"]] = (idx[0], may_true)
    _cache[key] = out
    return out


def predicate_hook(w, st, node, name, recv, args):
    if node.get("k") != "call":
        return None
    preds = predicate_summaries(w.facts)
    fname = name.split("::")[-1]
    if fname not in preds:
        return None
    i, may_true = preds[fname]
    # a predicate that also takes the flag knowledge is a *consumer* of it
    callee = [f for f in w.facts.fns_named(fname) if not f["qual"]]
    if callee and any(norm_ty(p["ty"]) == "FlagsState" for p in callee[0]["params"]):
        st.events.append({"kind": "consume", "node": node, "what": fname, "arg": args[i] if i < len(args) else None, "may_true": frozenset(may_true)})
    if i >= len(args) or not isinstance(args[i], Sym):
        return None
    v = args[i]
    uni = w.facts.enum_variants("ExprType")
    outs = []
    s1 = st.restrict(v.key, allowed=may_true, universe=uni)
    if s1 is not None:
        if s1 is st:
            s1 = st.copy()
        s1.events.append({"kind": "pred", "node": node, "what": fname, "result": True})
        outs.append(Outcome("val", s1, Const(True)))
    st.events.append({"kind": "pred", "node": node, "what": fname, "result": False})
    outs.append(Outcome("val", st, Const(False)))
    return outs


def combined_hook(w, st, node, name, recv, args):
    r = emission_hook(w, st, node, name, recv, args)
    if r is not None:
        return r
    r = predicate_hook(w, st, node, name, recv, args)
    if r is not None:
        return r
    return container_hook(w, st, node, name, recv, args)


def assign_hook(w, st, node, key, v):
    if key.startswith("self."):
        st.events.append({"kind": "set", "node": node, "field": key[5:], "value": v})


def fn_paths(facts, fn, extra_hooks=None, ignore_vars=()):
    """Enumerate the paths of a generator function. Returns list of
    (outcome kind, result value, final state)."""
    key = ("paths", id(facts), fn["name"], fn["qual"])
    if key in _cache and not extra_hooks:
        return _cache[key]
    hooks = {"on_call": combined_hook, "on_assign": assign_hook}
    if extra_hooks:
        hooks.update(extra_hooks)
    w = GenWalker(facts, fn, hooks=hooks, ignore_vars=ignore_vars)
    outs = w.run()
    res = [(o.kind, o.value, o.state) for o in outs]
    if not extra_hooks:
        _cache[key] = res
    return res


def is_error_exit(value):
    return isinstance(value, EnumV) and ((value.enum == "Result" and value.variant == "Err") or value.enum == "!")


def domain_of(st, v, facts=None, universe=None):
    """Set of possible concrete values for an abstract value at the end of a path;
    None = unconstrained/unknown."""
    if isinstance(v, Const):
        return {v.v}
    if isinstance(v, EnumV):
        return {v.variant}
    if isinstance(v, Sym):
        allowed, excl = st.cons.get(v.key, (None, frozenset()))
        if allowed is not None:
            return set(allowed)
        if universe is not None:
            return set(universe) - set(excl)
        if facts is not None and v.ty in facts.enums:
            return set(facts.enum_variants(v.ty)) - set(excl)
        if v.ty == "bool":
            return {True, False} - set(excl)
    return None


# ---------------------------------------------------------------------------
# asm() decision table


def classify_operand(v):
    """Operand shape from the abstract value of dasm_operand."""
    if isinstance(v, Const) and isinstance(v.v, str):
        s = v.v
        if s == "":
            return "none"
        if s.startswith("#"):
            return "imm"
        if s.startswith("(") and s.endswith("),Y"):
            return "indy"
        if s.endswith(",X"):
            return "idxX"
        if s.endswith(",Y"):
            return "idxY"
        return "sym:" + s
    if isinstance(v, Fmt):
        t = v.template
        if t.startswith("#"):
            return "imm"
        if t.startswith("(") and t.endswith("),Y"):
            return "indy"
        if t.startswith("("):
            return "other:" + t
        if t.endswith(",X"):
            return "idxX"
        if t.endswith(",Y"):
            return "idxY"
        return "plain"
    if isinstance(v, Sym):
        return "plain"
    return "other:" + repr(v)


def asm_table(facts):
    """Rows of the asm() decision tree."""
    key = ("asmtable", id(facts))
    if key in _cache:
        return _cache[key]
    fn = facts.fn("asm", GEN_QUAL)
    p_mn = p_op = p_hb = None
    for p in fn["params"]:
        t = norm_ty(p["ty"])
        if t == "AsmMnemonic":
            p_mn = p["name"]
        elif t == "ExprType":
            p_op = p["name"]
        elif t == "bool":
            p_hb = p["name"]
    if not (p_mn and p_op and p_hb):
        raise AnchorMissing("asm(): expected parameters of type AsmMnemonic, &ExprType and bool")
    events = []

    def hook(w, st, node, name, recv, args):
        if node.get("k") == "call" and name.split("::")[-1] == "in_zeropage" and args and isinstance(args[0], Sym):
            # predicate: the operand is encoded in zero page (the variable is in zero page and, for a
            # constant address, the offset does not leave it).  true => memory == Zeropage
            uni = w.facts.enum_variants("VariableMemory")
            outs = []
            # the predicate is a function of its arguments: a second call on the same path gives the same answer
            akey = args[0].key + "|" + expr_text(node["args"][1]) if len(node.get("args", [])) > 1 else args[0].key
            seen = st.notes.get("zp_calls", {})
            if akey in seen:
                return Const(seen[akey])
            def remember(s_, val):
                d = dict(s_.notes.get("zp_calls", {}))
                d[akey] = val
                s_.notes["zp_calls"] = d
            s1 = st.restrict(args[0].key + ".memory", allowed=["Zeropage"], universe=uni)
            if s1 is not None:
                if s1 is st:
                    s1 = st.copy()
                s1.notes["zp_pred"] = True
                remember(s1, True)
                outs.append(Outcome("val", s1, Const(True)))
            s2 = st.copy()
            s2.notes["zp_pred"] = False
            remember(s2, False)
            outs.append(Outcome("val", s2, Const(False)))
            return outs
        if node.get("k") == "mcall" and name == "asm" and node["recv"].get("k") == "path" and node["recv"]["segs"] == ["self"]:
            return Sym("rec:asm:" + expr_text(node), "Result < bool , Error >")
        if node.get("k") == "mcall" and name == "append_asm":
            st.events.append({"kind": "append_asm", "args": list(args), "node": node})
            return Unknown("()")
        return None

    w = GenWalker(facts, fn, hooks={"on_call": hook}, ignore_vars={"cycles", "cycles_alt", "signed", "s"})
    st0 = w.init.copy()
    st0.env["self.current_function"] = EnumV("Option", "Some", [Unknown("f")])
    outs = w.run(state=st0)
    all_mn = set(facts.enum_variants("AsmMnemonic"))
    rows = []
    for o in outs:
        st = o.state
        v = o.value
        if isinstance(v, EnumV) and v.enum == "!":
            kind = "panic"
        elif isinstance(v, EnumV) and v.variant == "Err":
            kind = "err"
        elif isinstance(v, EnumV) and v.variant == "Ok":
            kind = "ok" if any(e["kind"] == "append_asm" for e in st.events) else "ok-noemit"
        elif isinstance(v, Sym) and v.key.startswith("rec:asm:"):
            kind = "recursive"
        else:
            kind = "other"
        row = {"kind": kind, "value": v}
        row["mnemonics"] = domain_of(st, Sym(p_mn, "AsmMnemonic"), facts)
        row["operand"] = domain_of(st, Sym(p_op, "ExprType"), facts)
        row["high_byte"] = domain_of(st, Sym(p_hb, "bool"), facts)
        mem = vt = vc = size1 = None
        for k2, (allowed, excl) in st.cons.items():
            if k2.endswith(".memory"):
                mem = set(allowed) if allowed is not None else set(facts.enum_variants("VariableMemory")) - set(excl)
            elif k2.endswith(".var_type"):
                vt = set(allowed) if allowed is not None else set(facts.enum_variants("VariableType")) - set(excl)
            elif k2.endswith(".var_const"):
                vc = set(allowed) if allowed is not None else {True, False} - set(excl)
        row["memory"] = mem
        row["zp_pred"] = st.notes.get("zp_pred")
        row["var_type"] = vt
        row["var_const"] = vc
        sk = [k2 for k2 in st.cons if k2.startswith("self.bankswitching_scheme")]
        row["scheme"] = st.cons[sk[0]] if sk else (None, frozenset())
        row["atoms"] = dict(st.atoms)
        row["cons"] = {k2: (sorted(a, key=str) if a is not None else None, sorted(e, key=str)) for k2, (a, e) in st.cons.items()}
        if kind == "ok":
            ev = [e for e in st.events if e["kind"] == "append_asm"][-1]
            inst = ev["args"][0] if ev["args"] else None
            if isinstance(inst, StructV):
                row["operand_val"] = inst.fields.get("dasm_operand")
                row["nb_bytes"] = inst.fields.get("nb_bytes")
                row["protected"] = inst.fields.get("protected")
                row["mn_field"] = inst.fields.get("mnemonic")
            else:
                row["operand_val"] = st.env.get("dasm_operand")
                row["nb_bytes"] = st.env.get("nb_bytes")
            row["shape"] = classify_operand(row["operand_val"])
        row["env_offset"] = st.env.get("offset")
        row["state"] = st
        rows.append(row)
    _cache[key] = (rows, {"mn": p_mn, "op": p_op, "hb": p_hb}, fn)
    return _cache[key]


def expected_mode(mn, shape, zp, operand_variant=None):
    """Addressing mode a 6502 assembler selects for this mnemonic/operand text, or None."""
    modes = MN[mn]["modes"]
    if shape == "none":
        if "imp" in modes:
            return "imp"
        if "acc" in modes:
            return "acc"
        return None
    if shape == "imm":
        return "imm" if "imm" in modes else None
    if operand_variant == "Label":
        if "rel" in modes:
            return "rel"
        if mn in ("JMP", "JSR"):
            return "abs"
        return None
    if shape == "plain" or shape.startswith("sym:"):
        if zp and "zp" in modes:
            return "zp"
        if "abs" in modes and mn not in ():
            return "abs"
        return None
    if shape == "idxX":
        if zp and "zpx" in modes:
            return "zpx"
        return "absx" if "absx" in modes else None
    if shape == "idxY":
        if zp and "zpy" in modes:
            return "zpy"
        return "absy" if "absy" in modes else None
    if shape == "indy":
        return "indy" if "indy" in modes else None
    return None


# ---------------------------------------------------------------------------
# interprocedural flow of ExprType variants (which variants can reach a parameter,
# a return value, or a field that stores ExprType values)

import re as _re


def _flatten(v):
    if isinstance(v, Tup):
        for e in v.elems:
            yield from _flatten(e)
    elif isinstance(v, EnumV) and v.enum in ("Option", "Result"):
        for e in v.payload:
            yield from _flatten(e)
    else:
        yield v


def variant_flow(facts):
    key = ("vflow", id(facts))
    if key in _cache:
        return _cache[key]
    allv = set(facts.enum_variants("ExprType"))
    fns = [f for f in gen_fns(facts) if f["name"] != "new"]
    byname = {f["name"]: f for f in fns}
    RS = {f["name"]: set() for f in fns}
    PS = {}
    FS = {}
    params = {}
    for f in fns:
        for i, p in enumerate([p for p in f["params"] if p["name"] != "self"]):
            nm = p["name"].replace("mut ", "").strip()
            if norm_ty(p["ty"]) == "ExprType":
                PS[(f["name"], nm)] = set()
                params.setdefault(f["name"], {})[i] = nm

    def variants_of(v, st, fname):
        if isinstance(v, EnumV) and v.enum == "ExprType":
            return {v.variant}
        if isinstance(v, Sym):
            if v.ty is not None and v.ty != "ExprType":
                return None
            base = domain_of(st, v, facts, universe=allv) or set(allv)
            k = v.key
            m = _re.match(r"^ret\d+:(\w+)$", k)
            if m and m.group(1) in RS:
                return base & RS[m.group(1)]
            if (fname, k) in PS:
                return base & PS[(fname, k)]
            m = _re.match(r"^self\.(\w+)@\d+", k)
            if m:
                return base & FS.get(m.group(1), set())
            return base
        if isinstance(v, Unknown):
            return set(allv)
        return None

    changed = True
    rounds = 0
    while changed:
        changed = False
        rounds += 1
        for f in fns:
            fname = f["name"]
            for kind, value, st in fn_paths(facts, f):
                if is_error_exit(value):
                    # events before an error exit still happened (calls were made)
                    pass
                else:
                    for v in _flatten(value):
                        vs = variants_of(v, st, fname)
                        if vs and (isinstance(v, EnumV) and v.enum == "ExprType" or isinstance(v, Sym) and v.ty == "ExprType"):
                            if not vs <= RS[fname]:
                                RS[fname] |= vs
                                changed = True
                for ev in st.events:
                    if ev["kind"] == "call" and ev["callee"] in params:
                        for i, nm in params[ev["callee"]].items():
                            if i < len(ev["args"]):
                                vs = variants_of(ev["args"][i], st, fname)
                                if vs and not vs <= PS[(ev["callee"], nm)]:
                                    PS[(ev["callee"], nm)] |= vs
                                    changed = True
                    elif ev["kind"] == "set":
                        for v in _flatten(ev["value"]):
                            if isinstance(v, (EnumV, Sym)) and (getattr(v, "enum", None) == "ExprType" or getattr(v, "ty", None) == "ExprType"):
                                vs = variants_of(v, st, fname)
                                if vs and not vs <= FS.setdefault(ev["field"], set()):
                                    FS[ev["field"]] |= vs
                                    changed = True
                    elif ev["kind"] == "fieldpush":
                        for a in ev["args"]:
                            for v in _flatten(a):
                                if isinstance(v, (EnumV, Sym)) and (getattr(v, "enum", None) == "ExprType" or getattr(v, "ty", None) == "ExprType"):
                                    vs = variants_of(v, st, fname)
                                    if vs and not vs <= FS.setdefault(ev["field"], set()):
                                        FS[ev["field"]] |= vs
                                        changed = True
        if rounds > 50:
            break
    _cache[key] = (RS, PS, FS, variants_of)
    return _cache[key]
