"""C12 call graph / in-use closure, C11 option confinement, C05 determinism."""
import re

from astlib import AnchorMissing, expr_text, pat_text, walk, children
from core import rule
from genmodel import (gen_fns, fn_paths, is_error_exit, domain_of, GEN_QUAL, direct_mods, mod_summaries, EMITTERS)
from walker import Const, EnumV, Sym, Fmt, Tup, Unknown, StructV
import rules_asm
from rules_opt import guards_walk


def mentions_sym(v, key):
    if isinstance(v, Sym):
        return v.key == key
    if isinstance(v, Fmt):
        return any(mentions_sym(a, key) for a in v.args)
    if isinstance(v, Tup):
        return any(mentions_sym(a, key) for a in v.elems)
    if isinstance(v, EnumV):
        return any(mentions_sym(a, key) for a in v.payload)
    return False


def first_sym(v):
    if isinstance(v, Sym):
        return v
    if isinstance(v, (Fmt,)):
        for a in v.args:
            s = first_sym(a)
            if s:
                return s
    if isinstance(v, EnumV):
        for a in v.payload:
            s = first_sym(a)
            if s:
                return s
    return None


@rule("T-CALL-EMIT", floor=2,
      text="JSR instructions and inline expansions (push_code) are emitted only inside generate_function_call (who-may-call over all emission sites of the generator)")
def t_call_emit(facts, res, tier):
    sites = rules_asm.asm_sites(facts)
    fns = set()
    for s in sites:
        if s["mn"] and "JSR" in s["mn"]:
            fns.add(s["fn"]["name"])
            key = "T-CALL-EMIT:JSR:%s" % s["fn"]["name"]
            res.inst(key, True, None)
            if s["fn"]["name"] != "generate_function_call":
                res.fail(key, facts.where(s["fn"], s["node"]), "%s emits a JSR outside generate_function_call: the call is not recorded in the call tree" % s["fn"]["name"])
    for fn in gen_fns(facts):
        for n in walk(fn["body"]):
            if n.get("k") == "mcall" and n["method"] == "push_code":
                key = "T-CALL-EMIT:push_code:%s" % fn["name"]
                res.inst(key, True, None)
                if fn["name"] != "generate_function_call":
                    res.fail(key, facts.where(fn, n), "%s expands an inline body outside generate_function_call: the call is not recorded in the call tree" % fn["name"])
            if n.get("k") == "mcall" and n["method"] in ("inline",) and fn["name"] not in ("generate_asm_statement",):
                pass
    # any instruction (JMP as well: a tail call) whose operand is the label of a function
    from scopes import scoped, simple_name, strip
    for fn in gen_fns(facts):
        fkeys = set()
        for n in walk(fn["body"]):
            if n.get("k") == "mcall" and n["method"] in ("get", "get_mut", "contains_key") and n.get("args") and expr_text(n["recv"]).replace(" ", "").endswith(".functions"):
                nm = simple_name(n["args"][0])
                if nm:
                    fkeys.add(nm)
        if not any(n.get("k") == "mcall" and n["method"] == "asm" for n in walk(fn["body"])):
            continue
        for n, env, doms in scoped(fn):
            if not (n.get("k") == "mcall" and n["method"] == "asm" and len(n.get("args", [])) > 1):
                continue
            lab = None
            for x in walk(n["args"][1]):
                if x.get("k") == "call" and expr_text(x["func"]).replace(" ", "").endswith("ExprType::Label") and x.get("args"):
                    lab = x["args"][0]
            if lab is None:
                continue
            e = strip(lab)
            is_fn = False
            nm = simple_name(e)
            if nm:
                b = env.get(nm)
                if nm in fkeys or (b is not None and b.ctor and b.ctor[-1] == "Identifier"):
                    is_fn = True
            elif e.get("k") == "macro" and e.get("name") == "format" and e.get("args"):
                # format!("Call{}", name)
                is_fn = any(simple_name(a) in fkeys or (env.get(simple_name(a) or "") is not None and env[simple_name(a)].ctor and env[simple_name(a)].ctor[-1] == "Identifier") for a in e["args"][1:])
            if not is_fn:
                continue
            key = "T-CALL-EMIT:function-label:%s" % fn["name"]
            res.inst(key, True, {"function": fn["name"], "instruction": expr_text(n["args"][0]), "operand": expr_text(lab)[:40]})
            if fn["name"] != "generate_function_call":
                res.fail(key, facts.where(fn, n), "%s emits `%s` to the label of a function (`%s`) outside generate_function_call: control enters that function without the call being recorded in the call tree" % (fn["name"], expr_text(n["args"][0]), expr_text(lab)[:40]))
    # raw assembler text containing JSR built by the generator itself
    for fn in gen_fns(facts):
        for n in walk(fn["body"]):
            if n.get("k") == "lit" and n["ty"] == "str" and re.search(r"\bJSR\b", str(n["v"])):
                key = "T-CALL-EMIT:text:%s" % fn["name"]
                res.inst(key)
                res.fail(key, facts.where(fn, n), "%s builds assembler text containing JSR" % fn["name"])


@rule("T-CALL-RECORD", floor=2,
      text="in generate_function_call, every path that emits a JSR or expands an inline body and returns normally also records the callee under the current function in functions_call_tree (must-pass-through), and the recorded name is the one that was called")
def t_call_record(facts, res, tier):
    fn = facts.fn("generate_function_call", GEN_QUAL)
    n_paths = 0
    kinds = {}
    for kind, value, st in fn_paths(facts, fn):
        if is_error_exit(value):
            continue
        # paths on which no code is being emitted (no current function) emit nothing at all
        cf = [k for k in st.cons if k.startswith("self.current_function")]
        if any(st.cons[k][0] is not None and set(st.cons[k][0]) == {"None"} for k in cf):
            continue
        calls = []
        for e in st.events:
            if e["kind"] == "asm" and isinstance(e["args"][0], EnumV) and e["args"][0].variant == "JSR":
                calls.append(("JSR", first_sym(e["args"][1]), e))
            elif e["kind"] == "push_code":
                calls.append(("inline", first_sym(e["args"][0]) if e["args"] else None, e))
        if not calls:
            continue
        n_paths += 1
        recs = [e for e in st.events if e["kind"] == "fieldpush" and e["field"] == "functions_call_tree"]
        for what, sym, e in calls:
            key = "T-CALL-RECORD:%s" % what
            kinds[key] = kinds.get(key, 0) + 1
            after = [r for r in recs if st.events.index(r) > st.events.index(e)]
            if not after:
                res.fail(key, facts.where(fn, e["node"]), "a path through generate_function_call emits %s and returns normally without adding the callee to functions_call_tree" % ("a JSR" if what == "JSR" else "an inline expansion"))
                continue
            if sym is not None:
                ok = any(any(mentions_sym(a, sym.key) for a in r["args"]) for r in after)
                if not ok:
                    # `let mut v = Vec::new(); v.push(name); tree.insert(current, v)`
                    for r in after:
                        if r["node"]["method"] == "insert" and len(r["node"]["args"]) == 2 and r["node"]["args"][1].get("k") == "path":
                            lv = r["node"]["args"][1]["segs"][0]
                            if any(e2["kind"] == "localpush" and e2["var"] == lv and any(mentions_sym(a, sym.key) for a in e2["args"]) for e2 in st.events):
                                ok = True
                if not ok:
                    res.fail(key + ":name", facts.where(fn, after[0]["node"]), "the name recorded in the call tree is not the function that was called")
    for k, c in kinds.items():
        res.inst(k, True, {"paths": c})
    if not n_paths:
        raise AnchorMissing("generate_function_call: no emitting path found")
    # no stale snapshot: what is written into the tree must not derive from a value read out of it
    # before a call that can itself record callees (argument evaluation recurses into generate_function_call)
    mods, calls = mod_summaries(facts)
    key = "T-CALL-RECORD:no-stale-snapshot"
    res.inst(key)
    reported = False
    for kind, value, st in fn_paths(facts, fn):
        if reported or is_error_exit(value):
            continue
        reads = [i for i, e in enumerate(st.events) if e["kind"] == "fieldread" and e["field"] == "functions_call_tree"]
        if not reads:
            continue
        for k2, e in enumerate(st.events):
            if e["kind"] == "fieldpush" and e["field"] == "functions_call_tree" and not e.get("via_alias"):
                derived = any("functions_call_tree" in repr(a) for a in e["args"][1:])
                if not derived and len(e["node"]["args"]) == 2 and e["node"]["args"][1].get("k") == "path":
                    lv = e["node"]["args"][1]["segs"][0]
                    v = st.env.get(lv)
                    derived = v is not None and "functions_call_tree" in repr(v)
                if not derived:
                    continue
                r0 = min(reads)
                between = [c for c in st.events[r0:k2] if c["kind"] == "call" and "functions_call_tree" in mods.get(c["callee"], set())]
                if between:
                    res.fail(key, facts.where(fn, e["node"]), "generate_function_call writes back a callee list that was read from functions_call_tree before the call to %s, which can record callees itself (calls nested in arguments): their records are overwritten" % between[0]["callee"])
                    reported = True
                    break
    # the record is filed under the current function
    key = "T-CALL-RECORD:keyed-by-current-function"
    res.inst(key)
    ok = False
    for n in walk(fn["body"]):
        if n.get("k") == "if" and n["cond"].get("k") == "letcond" and "current_function" in expr_text(n["cond"]["e"]):
            t = expr_text(n["then"])
            if "functions_call_tree.get_mut(" in t and "functions_call_tree.insert(" in t:
                ok = True
        if n.get("k") == "let" and "current_function" in expr_text(n.get("init")):
            ok = ok or "functions_call_tree" in expr_text(fn["body"])
    if not ok:
        res.fail(key, facts.where(fn), "the call is not filed under self.current_function")


@rule("T-CALL-WRITERS", floor=2,
      text="functions_call_tree is written only by generate_function_call and functions_actually_in_use only by compute_functions_actually_in_use (besides the constructor)")
def t_call_writers(facts, res, tier):
    allowed = {"functions_call_tree": {"generate_function_call", "new"}, "functions_actually_in_use": {"compute_functions_actually_in_use", "new"}}
    for fn in facts.fns:
        mods = direct_mods(fn) if GEN_QUAL in fn["qual"] else set()
        # writes through any receiver (e.g. gstate.functions_call_tree.insert in other modules)
        for n in walk(fn["body"]):
            if n.get("k") == "mcall" and n["method"] in ("insert", "push", "remove", "clear", "get_mut", "entry", "retain", "extend", "drain"):
                t = expr_text(n["recv"])
                for fld in allowed:
                    if t.endswith("." + fld) or ("." + fld + ".") in t:
                        mods.add(fld)
            if n.get("k") == "assign":
                t = expr_text(n["l"])
                for fld in allowed:
                    if t.endswith("." + fld):
                        mods.add(fld)
        for fld, ok in allowed.items():
            if fld in mods:
                key = "T-CALL-WRITERS:%s:%s" % (fld, fn["name"])
                res.inst(key, True, None)
                if fn["name"] not in ok:
                    res.fail(key, facts.where(fn), "%s writes %s" % (fn["name"], fld))


@rule("T-INUSE-CLOSURE", floor=4,
      text="compute_functions_actually_in_use starts the traversal from \"main\" unconditionally and from every function whose `interrupt` flag is set (guarded by nothing else), publishes exactly the traversal's result, and function_is_actually_in_use follows every callee in the call tree guarded only by the visited test")
def t_inuse_closure(facts, res, tier):
    fn = facts.fn("compute_functions_actually_in_use", GEN_QUAL)
    stmts = fn["body"]["stmts"]
    key = "T-INUSE-CLOSURE:root-main"
    res.inst(key)
    top_calls = [s for s in stmts if s.get("k") == "mcall" and s["method"] == "function_is_actually_in_use"]
    if not any(expr_text(c["args"][0]) == '"main"' for c in top_calls):
        res.fail(key, facts.where(fn), "the traversal does not start unconditionally from \"main\"")
    key = "T-INUSE-CLOSURE:root-interrupts"
    res.inst(key)
    ok = False
    for s in stmts:
        if s.get("k") == "for" and expr_text(s["iter"]).endswith("compiler_state.functions"):
            found = []
            guards_walk(s["body"], [], found, lambda n: n.get("k") == "mcall" and n["method"] == "function_is_actually_in_use")
            for node, guards in found:
                gs = [g for g, pol in guards if pol]
                if len(gs) == 1 and re.match(r"^\w+\.1\.interrupt$", gs[0]) and re.match(r"^\w+\.0$", expr_text(node["args"][0])):
                    ok = True
                elif not gs:
                    ok = True  # every function is a root: superset, still complete
    if not ok:
        res.fail(key, facts.where(fn), "interrupt handlers are not all used as traversal roots (the call must be guarded by the `interrupt` flag only)")
    key = "T-INUSE-CLOSURE:publish"
    res.inst(key)
    assigns = [s for s in stmts if s.get("k") == "assign" and expr_text(s["l"]) == "self.functions_actually_in_use"]
    setvar = None
    for c in top_calls:
        setvar = expr_text(c["args"][1]) if len(c["args"]) > 1 else None
    if len(assigns) != 1 or setvar is None or expr_text(assigns[0]["r"]) != setvar:
        res.fail(key, facts.where(fn), "the published in-use set is not the set filled by the traversal")
    elif stmts.index(assigns[0]) < max(stmts.index(s) for s in stmts if s.get("k") == "for"):
        res.fail(key, facts.where(fn), "the in-use set is published before the interrupt roots are traversed")
    # the accumulator starts empty: anything put into it beforehand counts as visited and is never expanded
    key = "T-INUSE-CLOSURE:starts-empty"
    res.inst(key)
    if setvar is not None:
        name = setvar.replace("&mut", "").replace("&", "").strip()
        inits = [s for s in walk(fn["body"]) if s.get("k") == "let" and s["pat"].get("k") == "ident" and s["pat"]["name"] == name and "init" in s]
        it = expr_text(inits[0]["init"]).replace(" ", "") if inits else ""
        if not re.match(r"^Hash(Set|Map)(::<.*>)?::(new|default)\(\)$|^Default::default\(\)$", it):
            res.fail(key, facts.where(fn, inits[0] if inits else None), "the in-use set handed to the traversal is initialised with `%s`, not empty: whatever it already contains is treated as visited and its callees are never followed" % it[:120])
        pre = [s for s in stmts if s.get("k") == "mcall" and expr_text(s["recv"]) == name and s["method"] in ("insert", "extend")]
        if pre:
            res.fail(key, facts.where(fn, pre[0]), "entries are put into the in-use set outside the traversal: they count as visited and their callees are never followed")
    rf = facts.fn("function_is_actually_in_use", GEN_QUAL)
    key = "T-INUSE-CLOSURE:recursion"
    res.inst(key)
    found = []
    guards_walk(rf["body"], [], found, lambda n: n.get("k") == "mcall" and n["method"] == "function_is_actually_in_use")
    ok = False
    for node, guards in found:
        gs = [g for g, pol in guards if pol]
        # allowed guards: the visited test and the existence of a callee list
        if all(("is_none()" in g and ".get(" in g) or g.startswith("let Some(") for g in gs):
            ok = True
    fors = [n for n in walk(rf["body"]) if n.get("k") == "for"]
    if not ok or not fors or not any("functions_call_tree" in expr_text(rf["body"]) for _ in [0]):
        res.fail(key, facts.where(rf), "function_is_actually_in_use does not follow every recorded callee (recursion must be guarded only by the visited test)")
    # nothing ends the walk but the visited test: no `return`, `break` or `continue` in the function
    key = "T-INUSE-CLOSURE:no-early-exit"
    exits = [n for n in walk(rf["body"]) if n.get("k") in ("return", "break", "continue")]
    res.inst(key, True, {"exits": len(exits)})
    for n in exits:
        res.fail(key, facts.where(rf, n), "function_is_actually_in_use leaves (`%s`) on something other than the visited test: the walk can stop before every reachable function is marked" % expr_text(n)[:40])
    key = "T-INUSE-CLOSURE:visited-insert"
    res.inst(key)
    inserts = [n for n in walk(rf["body"]) if n.get("k") == "mcall" and n["method"] == "insert"]
    if not inserts:
        res.fail(key, facts.where(rf), "visited functions are not added to the in-use set")
    # the set that is tested, the set that is extended and the set handed to the recursive call are one and the same:
    # otherwise the traversal never sees its own progress and does not terminate on a cyclic call graph
    key = "T-INUSE-CLOSURE:visited-same-set"
    tested = set()
    for node, guards in found:
        for g, pol in guards:
            m = re.match(r"^(.+)\.get\((\w+)\)\.is_none\(\)$", g.replace(" ", ""))
            if m and pol:
                tested.add(m.group(1))
            m = re.match(r"^!(.+)\.contains\((\w+)\)$", g.replace(" ", ""))
            if m and pol:
                tested.add(m.group(1))
    extended = {expr_text(n["recv"]) for n in inserts}
    passed = {expr_text(node["args"][1]) for node, _ in found if len(node["args"]) > 1}
    res.inst(key, True, {"tested": sorted(tested), "extended": sorted(extended), "passed_on": sorted(passed)})
    if len(tested) != 1 or tested != extended or (passed and tested != passed):
        res.fail(key, facts.where(rf), "the visited test looks at `%s` but the traversal extends `%s` and passes on `%s`: on a recursive or mutually recursive program the traversal never terminates (stack overflow)" % (", ".join(sorted(tested)) or "?", ", ".join(sorted(extended)) or "?", ", ".join(sorted(passed)) or "?"))


# ----------------------------------------------------------------------------- C11


@rule("T-OPTION-CONFINE", floor=4,
      text="the listing option insert_code is read only (i) as the guard of the source-comment emission in generate_statement, whose region emits nothing but comment lines and changes only the listing cursor, and (ii) as the `cycles` argument of AsmLine::write, where both branches print the same mnemonic and operand; the warnings option is read only in conditions that guard calls to CompilerState::warning")
def t_option_confine(facts, res, tier):
    mods, calls = mod_summaries(facts)
    listing_fields = {"last_included_line_number", "last_included_position", "last_included_char"}
    n_reads = 0
    for fn in facts.fns:
        if fn["name"] == "new" and GEN_QUAL in fn["qual"]:
            continue
        found = []
        guards_walk(fn["body"], [], found, lambda n: n.get("k") == "field" and n["name"] == "insert_code")
        for node, guards in found:
            n_reads += 1
            key = "T-OPTION-CONFINE:insert_code:%s" % fn["name"]
            res.inst(key, True, None)
            if fn["name"] == "generate_statement":
                # must be exactly the condition of an `if`
                owner = None
                for n in walk(fn["body"]):
                    if n.get("k") == "if" and n["cond"] is node:
                        owner = n
                if owner is None:
                    res.fail(key, facts.where(fn, node), "insert_code is used outside an `if self.insert_code` guard")
                    continue
                if "else" in owner:
                    res.fail(key, facts.where(fn, owner), "the insert_code guard has an else branch (code emitted only without the listing)")
                for c in walk(owner["then"]):
                    if c.get("k") == "mcall" and c["recv"].get("k") == "path" and c["recv"]["segs"] == ["self"]:
                        m = c["method"]
                        if m in EMITTERS and m != "comment":
                            res.fail(key, facts.where(fn, c), "the listing region emits `%s`, not only comments" % m)
                        elif m in mods and not (mods[m] <= listing_fields | {"functions_code"}):
                            res.fail(key, facts.where(fn, c), "the listing region calls %s, which changes generator state %s" % (m, sorted(mods[m] - listing_fields)))
                    if c.get("k") in ("assign", "assignop") and expr_text(c["l"]).startswith("self.") and expr_text(c["l"])[5:].split(".")[0] not in listing_fields:
                        res.fail(key, facts.where(fn, c), "the listing region assigns %s" % expr_text(c["l"]))
            elif fn["name"] == "write_function":
                ok = False
                for c in walk(fn["body"]):
                    if c.get("k") == "mcall" and c["method"] == "write" and node in c["args"]:
                        ok = True
                if not ok:
                    res.fail(key, facts.where(fn, node), "insert_code is used for something else than the listing flag of AssemblyCode::write")
            else:
                res.fail(key, facts.where(fn, node), "%s reads insert_code: the listing option may influence generated code" % fn["name"])
    # AsmLine::write: cycles only selects formatting
    wfn = facts.fn("write", "AsmLine")
    key = "T-OPTION-CONFINE:AsmLine::write"
    res.inst(key)
    for n in walk(wfn["body"]):
        if n.get("k") == "if" and expr_text(n["cond"]) == "cycles":
            def printed(b):
                out = []
                for m in walk(b):
                    if m.get("k") == "macro" and m["name"] == "format" and m.get("args"):
                        t = tuple(sorted(expr_text(a) for a in m["args"][1:] if "mnemonic" in expr_text(a) or "dasm_operand" in expr_text(a)))
                        if t:
                            out.append(t)
                return sorted(out)
            if "else" not in n or printed(n["then"]) != printed(n["else"]):
                res.fail(key, facts.where(wfn, n), "the two branches of `if cycles` do not print the same mnemonic/operand")
    # nested use of `cycles` elsewhere in write
    for n in walk(wfn["body"]):
        if n.get("k") == "match":
            for arm in n["arms"]:
                if pat_text(arm["pat"]).startswith("AsmLine::") and not pat_text(arm["pat"]).startswith("AsmLine::Instruction") and "cycles" in [expr_text(x) for x in walk(arm["body"]) if x.get("k") == "path"]:
                    res.fail(key, facts.where(wfn, arm["body"]), "`cycles` influences how a %s line is written" % pat_text(arm["pat"]))
    # warnings option
    for fn in facts.fns:
        found = []
        guards_walk(fn["body"], [], found, lambda n: n.get("k") == "field" and n["name"] == "warnings" and expr_text(n["base"]) == "self")
        for node, guards in found:
            key = "T-OPTION-CONFINE:warnings:%s" % fn["name"]
            res.inst(key, True, None)
            owner = None
            for n in walk(fn["body"]):
                if n.get("k") == "if" and node in list(walk(n["cond"])):
                    owner = n
            if owner is None:
                res.fail(key, facts.where(fn, node), "the warnings option is read outside a condition")
                continue
            body = owner["then"]["stmts"]
            if "else" in owner or not all(s.get("k") == "mcall" and s["method"] == "warning" for s in body):
                res.fail(key, facts.where(fn, owner), "a condition on the warnings option guards something else than warning() calls")
    if n_reads < 2:
        raise AnchorMissing("insert_code: expected reads in generate_statement and write_function")


# ----------------------------------------------------------------------------- C05

HASH_RE = re.compile(r"\bHash(Map|Set)\b")
ITER_METHODS = {"iter", "iter_mut", "keys", "values", "values_mut", "into_iter", "drain", "into_keys", "into_values"}
ORDER_FREE_CALLEES = {
    "function_is_actually_in_use": "inserts into a HashSet and recurses; the resulting set does not depend on visiting order",
}
FRESH_KEY_EXCEPTIONS = {
    ("parse_expr", "k.0.clone()"): "key is cctmp<literal_counter>, a name the counter never repeats and that no declaration can take (T-RESERVED-NAMES)",
    ("parse_expr_init_value", "k.0.clone()"): "key is cctmp<literal_counter>, a name the counter never repeats and that no declaration can take (T-RESERVED-NAMES)",
    ("compile_var_decl", "name.clone()"): "key is cctmp<literal_counter>, a name the counter never repeats and that no declaration can take (T-RESERVED-NAMES) (array-of-pointers literals)",
    ("compile", '"DUMMY".to_string()'): "inserted once, after parsing",
}


def hash_fields(facts):
    out = {}
    for s in facts.structs.values():
        for f in s["fields"]:
            if f["name"] and HASH_RE.search(f["ty"]) and not f["ty"].strip().startswith("Vec"):
                out[f["name"]] = f["ty"]
    return out


def hash_locals(facts, fn):
    """Local names (incl. params and tuple projections) whose type is a HashMap/HashSet."""
    names = {}
    for p in fn["params"]:
        if HASH_RE.search(p["ty"]) and "Vec" not in p["ty"]:
            names[p["name"].replace("mut ", "").strip()] = p["ty"]
    tuple_ret = {}
    for f in facts.fns:
        m = re.match(r"^Result\s*<\s*\((.*)\)\s*,", f["ret"].strip())
        if m:
            parts = [x.strip() for x in m.group(1).split(",")]
            for i, t in enumerate(parts):
                if HASH_RE.search(t):
                    tuple_ret[f["name"]] = i
    for n in walk(fn["body"]):
        if n.get("k") == "let" and n["pat"].get("k") == "ident" and "init" in n:
            it = expr_text(n["init"])
            if "ty" in n and HASH_RE.search(n["ty"]) and "Vec" not in n["ty"]:
                names[n["pat"]["name"]] = n["ty"]
            elif re.match(r"^Hash(Map|Set)(::<.*>)?::new\(\)$", it.replace(" ", "")) or re.match(r"^Hash(Map|Set)::", it):
                names[n["pat"]["name"]] = "HashMap"
            elif re.search(r"Mutex::new\(Hash(Map|Set)", it.replace(" ", "")):
                names["*" + n["pat"]["name"]] = "Mutex<HashMap>"
            else:
                for c in walk(n["init"]):
                    if c.get("k") in ("mcall",) and c["method"] in tuple_ret:
                        names["%s.%d" % (n["pat"]["name"], tuple_ret[c["method"]])] = "HashMap (tuple field of %s)" % c["method"]
                # Rc::into_inner(x).unwrap().into_inner().unwrap() of a Mutex<HashMap>
                m = re.match(r"^Rc::into_inner\((\w+)\)", it)
                if m and ("*" + m.group(1)) in names:
                    names[n["pat"]["name"]] = "HashMap"
                m = re.match(r"^(\w+)\.lock\(\)\.unwrap\(\)$", it)
                if m and ("*" + m.group(1)) in names:
                    names[n["pat"]["name"]] = "MutexGuard<HashMap>"
    return names


def is_hash_expr(e, hf, hl):
    t = expr_text(e)
    if e.get("k") == "field" and e["name"] in hf:
        return True
    if t in hl:
        return True
    if e.get("k") == "path" and len(e["segs"]) == 1 and e["segs"][0] in hl:
        return True
    return False


def body_order_free(body, hf, hl, loopvar):
    """Is the loop body independent of iteration order?  -> (bool, reason)"""
    local = {loopvar}
    for n in walk(body):
        if n.get("k") == "let":
            local.update(__import__("walker").pat_names(n["pat"]))
        if n.get("k") == "for":
            local.update(__import__("walker").pat_names(n["pat"]))
    for s in body["stmts"]:
        ok, why = stmt_order_free(s, hf, hl, local)
        if not ok:
            return False, why
    return True, ""


def only_local(e, local):
    while e.get("k") in ("field", "index", "mcall", "ref", "unary"):
        e = e.get("base") or e.get("recv") or e.get("e")
    return e.get("k") == "path" and len(e["segs"]) == 1 and e["segs"][0] in local


def stmt_order_free(s, hf, hl, local=frozenset()):
    k = s.get("k")
    if k == "mcall" and only_local(s["recv"], local) and not (s["method"] == "insert" and is_hash_expr(s["recv"], hf, hl)):
        return True, ""
    if k in ("assign", "assignop") and only_local(s["l"], local):
        return True, ""
    if k == "for" and not is_hash_expr(s["iter"], hf, hl):
        for x in s["body"]["stmts"]:
            ok, why = stmt_order_free(x, hf, hl, local)
            if not ok:
                return False, why
        return True, ""
    if k == "mcall" and s["method"] == "insert" and is_hash_expr(s["recv"], hf, hl):
        at = " ".join(expr_text(a) for a in s["args"])
        if ".len()" in at or "counter" in at:
            return False, "inserts a value numbered by a running count (`%s`)" % at[:80]
        return True, ""
    if k == "mcall" and s["recv"].get("k") == "path" and s["recv"]["segs"] == ["self"] and s["method"] in ORDER_FREE_CALLEES:
        return True, ""
    if k == "if":
        for b in (s["then"], s.get("else")):
            if b is None:
                continue
            if b.get("k") == "block":
                for x in b["stmts"]:
                    ok, why = stmt_order_free(x, hf, hl, local)
                    if not ok:
                        return False, why
            else:
                ok, why = stmt_order_free(b, hf, hl, local)
                if not ok:
                    return False, why
        return True, ""
    if k == "macro" and s["name"] in ("debug", "trace", "info"):
        return True, ""
    if k == "let":
        return True, ""
    if k == "block":
        for x in s["stmts"]:
            ok, why = stmt_order_free(x, hf, hl, local)
            if not ok:
                return False, why
        return True, ""
    return False, "`%s`" % expr_text(s)[:80]


def sort_is_total(call):
    """Is the order imposed on the collected (&key, &value) pairs total on distinct entries?
    Accepted: the natural order of the pairs (keys of a map are unique), a comparison that includes the
    whole key (`.0`), or the insertion counter `.order` (unique by T-ORDER-FRESH)."""
    m = call["method"]
    if m in ("sort", "sort_unstable"):
        return True, ""
    if not call["args"] or call["args"][0].get("k") != "closure":
        return False, "comparator is not a closure the rule can read"
    cl = call["args"][0]
    ps = [p.get("name") for p in cl["params"] if p.get("k") == "ident"]
    body = expr_text(cl["body"]).replace(" ", "")
    if m in ("sort_by", "sort_unstable_by") and len(ps) == 2:
        a, b = ps
        for fld in ("0", "1.order"):
            if re.search(r"\b%s\.%s\.cmp\(&?%s\.%s\)" % (re.escape(a), re.escape(fld), re.escape(b), re.escape(fld)), body):
                return True, ""
        return False, "`%s`" % body[:80]
    if m in ("sort_by_key", "sort_unstable_by_key") and len(ps) == 1:
        x = ps[0]
        if re.match(r"^%s\.(0|1\.order)(\.clone\(\))?$" % re.escape(x), body):
            return True, ""
        return False, "`%s`" % body[:80]
    return False, "`%s`" % body[:80]


@rule("T-HASH-ITER", floor=6,
      text="every iteration over a HashMap/HashSet (for-loops and iterator adaptors; receiver types resolved from struct fields, annotations, constructors and tuple return types) is consumed in a way that does not depend on iteration order: inserting into another hash container without numbering, set-building traversals, or collecting into a Vec that is sorted before any other use")
def t_hash_iter(facts, res, tier):
    hf = hash_fields(facts)
    n = 0
    for fn in facts.fns:
        hl = hash_locals(facts, fn)
        def strip(e):
            while e.get("k") in ("ref", "unary") or (e.get("k") == "mcall" and e["method"] in ("clone", "borrow")):
                e = e.get("e") or e.get("recv")
            return e
        for node in walk(fn["body"]):
            if node.get("k") == "for":
                it = strip(node["iter"])
                recv = it
                if it.get("k") == "mcall" and it["method"] in ITER_METHODS:
                    recv = strip(it["recv"])
                if not is_hash_expr(recv, hf, hl):
                    continue
                n += 1
                key = "T-HASH-ITER:%s:for %s in %s" % (fn["name"], pat_text(node["pat"]), expr_text(recv))
                ok, why = body_order_free(node["body"], hf, hl, pat_text(node["pat"]))
                res.inst(key, True, {"function": fn["name"], "container": expr_text(recv), "order_free": ok})
                if not ok:
                    res.fail(key, facts.where(fn, node), "%s iterates over the hash container `%s` and %s: the result depends on hash order, which differs between processes" % (fn["name"], expr_text(recv), why))
            elif node.get("k") == "mcall" and node["method"] in ITER_METHODS and is_hash_expr(strip(node["recv"]), hf, hl):
                # not the iterable of a for loop?
                parent_for = any(f.get("k") == "for" and (f["iter"] is node or strip(f["iter"]) is node) for f in walk(fn["body"]))
                if parent_for:
                    continue
                n += 1
                key = "T-HASH-ITER:%s:%s.%s()" % (fn["name"], expr_text(node["recv"]), node["method"])
                # accepted shape: let mut v: Vec<_> = X.iter().collect(); v.sort_by(..); v
                ok = False
                why = "its items are consumed in hash order"
                for s in walk(fn["body"]):
                    if s.get("k") == "block":
                        st = s["stmts"]
                        for i, x in enumerate(st):
                            if x.get("k") == "let" and "init" in x and node in list(walk(x["init"])) and expr_text(x["init"]).endswith(".collect()") and x["pat"].get("k") == "ident":
                                v = x["pat"]["name"]
                                nxt = st[i + 1] if i + 1 < len(st) else None
                                if nxt is not None and nxt.get("k") == "mcall" and nxt["method"] in ("sort_by", "sort_by_key", "sort", "sort_unstable", "sort_unstable_by", "sort_unstable_by_key") and expr_text(nxt["recv"]) == v:
                                    tot, twhy = sort_is_total(nxt)
                                    if tot:
                                        ok = True
                                    else:
                                        why = "the collected Vec is sorted by a key that is not unique (%s): entries that compare equal stay in hash order" % twhy
                                else:
                                    why = "the collected Vec is not sorted before use"
                res.inst(key, True, {"function": fn["name"], "sorted_before_use": ok})
                if not ok:
                    res.fail(key, facts.where(fn, node), "%s iterates over the hash container `%s` and %s" % (fn["name"], expr_text(node["recv"]), why))
    res.note("%d hash-container iterations classified; hash-typed fields: %s" % (n, sorted(hf)))


@rule("T-ORDER-FRESH", floor=6,
      text="the insertion counters used as sort keys are unique: every `order:` initialiser of a Variable/Function is the current length of the map it is inserted into, and that insertion cannot replace an existing entry (the function rejects or renames an existing key first); otherwise two entries share a key and their relative order falls back to hash order")
def t_order_fresh(facts, res, tier):
    counted = set()
    _order_fresh_inserts(facts, res, counted)
    # the length of a map is a counter only while the map never shrinks
    SHRINK = ("remove", "remove_entry", "retain", "clear", "drain", "take", "pop_first", "pop_last", "split_off", "extract_if")
    for m in sorted(counted):
        key = "T-ORDER-FRESH:%s:never-shrinks" % m
        res.inst(key, True, {"map": m})
        for fn in facts.fns:
            if fn.get("test"):
                continue
            for x in walk(fn["body"]):
                if x.get("k") == "mcall" and x["method"] in SHRINK:
                    r = x["recv"]
                    while r.get("k") in ("ref", "paren") or (r.get("k") == "unary" and r.get("op") in ("*", "&")):
                        r = r["e"]
                    if r.get("k") == "field" and r["name"] == m:
                        res.fail(key, facts.where(fn, x), "%s shrinks `%s` (%s): its length is the insertion counter stored as `order`, so the next entries get order values that are already taken and their relative position in the sorted listings is hash order" % (fn["name"], m, x["method"]))
                if x.get("k") == "assign" and x.get("l", {}).get("k") == "field" and x["l"]["name"] == m:
                    res.fail(key, facts.where(fn, x), "%s replaces the map `%s`, whose length is the insertion counter stored as `order`" % (fn["name"], m))


def _order_fresh_inserts(facts, res, counted):
    for fn in facts.fns:
        for ins in walk(fn["body"]):
            if ins.get("k") != "mcall" or ins["method"] != "insert" or len(ins["args"]) != 2:
                continue
            val = ins["args"][1]
            lit = None
            if val.get("k") == "struct" and val["segs"][-1] in ("Variable", "Function"):
                lit = val
            elif val.get("k") == "path" and len(val["segs"]) == 1:
                for l in walk(fn["body"]):
                    if l.get("k") == "let" and l["pat"].get("k") == "ident" and l["pat"]["name"] == val["segs"][0] and l.get("init", {}).get("k") == "struct" and l["init"]["segs"][-1] in ("Variable", "Function"):
                        lit = l["init"]
            if lit is None:
                continue
            mapt = expr_text(ins["recv"])
            keyt = expr_text(ins["args"][0])
            order = {f["name"]: expr_text(f["e"]) for f in lit["fields"]}.get("order")
            key = "T-ORDER-FRESH:%s:%s.insert(%s)" % (fn["name"], mapt, keyt)
            res.inst(key, True, {"function": fn["name"], "map": mapt, "key": keyt, "order": order})
            kvar = re.sub(r"\.(clone|to_string|into)\(\)$", "", keyt)
            # order-preserving replacement: keep the existing entry's order, else the current size
            preserving = re.match(r"^%s\.get\(%s\)\.map\(\|\.\.\|(\w+)\.order\)\.unwrap_or\(%s\.len\(\)\)$" % (re.escape(mapt), re.escape(kvar), re.escape(mapt)), order or "")
            if preserving:
                continue
            if order != mapt + ".len()":
                res.fail(key, facts.where(fn, lit), "order is `%s`, not the current size of `%s`" % (order, mapt))
                continue
            # freshness: an absence test of the same key in the same map that rejects/renames
            fresh = False
            found = []
            guards_walk(fn["body"], [], found, lambda n: n is ins)
            guards = found[0][1] if found else []
            for g, pol in guards:
                if pol and re.search(r"%s\.get\(&?%s\)\.is_none\(\)" % (re.escape(mapt), re.escape(kvar)), g.replace(" ", "")):
                    fresh = True
            for n in walk(fn["body"]):
                if n.get("k") in ("if", "while"):
                    c = expr_text(n["cond"]).replace(" ", "")
                    if re.search(r"%s\.get\(&?%s\)\.is_some\(\)" % (re.escape(mapt), re.escape(kvar)), c):
                        body = n["then"] if n.get("k") == "if" else n["body"]
                        tt = expr_text(body)
                        if "return Err" in tt and n.get("k") == "if":
                            fresh = True
                        elif re.search(r"\b%s=" % re.escape(kvar), tt):
                            # a rename: the new name has to be tested too (a loop), it may be another entry's
                            if n.get("k") == "while":
                                fresh = True
                            else:
                                res.fail(key + ":renamed-once", facts.where(fn, n), "%s renames `%s` when it is taken and inserts the new name without testing it: the name made up may be the one of another entry (`x` renamed `x_0` next to a local `x_0`), which is then replaced" % (fn["name"], kvar))
                                fresh = True
            if not fresh and (fn["name"], keyt) in FRESH_KEY_EXCEPTIONS:
                res.note("exception %s: %s" % (key, FRESH_KEY_EXCEPTIONS[(fn["name"], keyt)]))
                fresh = True
            counted.add(mapt.split(".")[-1])
            if not fresh:
                res.fail(key, facts.where(fn, ins), "%s inserts into `%s` with order = len() but may replace an existing entry for `%s`: the new entry's order then equals that of the next insertion and the sorted output order depends on hash order" % (fn["name"], mapt, keyt))


NONDET = [r"\bSystemTime\b", r"\bInstant\b", r"\benv::vars?\b", r"\benv::args\b", r"\bthread::spawn\b", r"\brand::", r"\bRandomState\b",
          r"\bprocess::id\b", r"\bthread_rng\b", r"\bUuid\b", r"\bchrono::"]


@rule("T-NONDET-API", floor=1,
      text="no non-test function of the crate reads the clock, the environment, process identity or a random source, spawns threads, or formats a pointer ({:p}); the crate has no `static mut`, no static with interior mutability and no thread_local!/lazy_static! state, so one compilation cannot influence the next")
def t_nondet_api(facts, res, tier):
    n = 0
    for fn in facts.fns:
        n += 1
        for node in walk(fn["body"]):
            t = None
            if node.get("k") == "path":
                t = "::".join(node["segs"])
            elif node.get("k") == "call":
                t = expr_text(node["func"])
            if t:
                for pat in NONDET:
                    if re.search(pat, t):
                        key = "T-NONDET-API:%s:%s" % (fn["name"], t)
                        res.inst(key)
                        res.fail(key, facts.where(fn, node), "%s uses `%s`: output would depend on something other than source and options" % (fn["name"], t))
            if node.get("k") == "lit" and node["ty"] == "str" and "{:p}" in str(node["v"]):
                key = "T-NONDET-API:%s:{:p}" % fn["name"]
                res.inst(key)
                res.fail(key, facts.where(fn, node), "%s formats a pointer value" % fn["name"])
    res.inst("T-NONDET-API:functions-scanned", True, {"functions": n})
    for s in facts.statics:
        key = "T-NONDET-API:static:%s" % s["name"]
        res.inst(key, True, s)
        if s["mut"] or re.search(r"\b(Mutex|RwLock|RefCell|Cell|Atomic\w+|OnceCell|OnceLock|Lazy|LazyLock)\b", s["ty"]):
            res.fail(key, "%s:%s" % (facts.rel(s["file"]), s["line"]), "static `%s` holds mutable state shared between compilations" % s["name"])
    for m in facts.doc.get("item_macros", []):
        if re.search(r"thread_local|lazy_static", m["name"]):
            key = "T-NONDET-API:item-macro:%s" % m["name"]
            res.inst(key)
            res.fail(key, "%s:%s" % (facts.rel(m["file"]), m["line"]), "`%s!` declares hidden global state" % m["name"])
    res.inst("T-NONDET-API:statics-scanned", True, {"statics": len(facts.statics)})
