"""T-TREEWALK: agreement between the pest grammar and the code that walks parse trees.

Abstract interpretation of the functions that consume pest `Pair`/`Pairs` values:
  Pair  -> set of grammar rule names it may be
  Pairs -> set of positions (rule, NFA state) in the child sequence of its parent
The child sequences come from the grammar: for each rule an NFA over the names of the
non-silent rules that produce inner pairs (silent rules inlined, atomic rules childless,
look-aheads produce nothing, ordered choice treated as plain choice - an over-approximation
of what can appear).
"""
import re

from astlib import AnchorMissing, expr_text, pat_text, walk, children, body_is_panic, is_panic_macro
from core import rule
from rules_total import grammar_op_sets, PRATT_BINDING

BUILTINS = {"ANY", "SOI", "NEWLINE", "PEEK", "PEEK_ALL", "POP", "POP_ALL", "DROP", "ASCII_DIGIT", "ASCII_NONZERO_DIGIT",
            "ASCII_BIN_DIGIT", "ASCII_OCT_DIGIT", "ASCII_HEX_DIGIT", "ASCII_ALPHA_LOWER", "ASCII_ALPHA_UPPER", "ASCII_ALPHA",
            "ASCII_ALPHANUMERIC", "ASCII"}


class NFA:
    def __init__(self):
        self.trans = {}  # state -> list of (sym or None, target)
        self.n = 0
        self.start = self.new()
        self.accept = self.new()

    def new(self):
        self.n += 1
        self.trans[self.n] = []
        return self.n

    def add(self, a, sym, b):
        self.trans[a].append((sym, b))

    def closure(self, states):
        out = set(states)
        stack = list(states)
        while stack:
            s = stack.pop()
            for sym, t in self.trans[s]:
                if sym is None and t not in out:
                    out.add(t)
                    stack.append(t)
        return frozenset(out)

    def step(self, states):
        """-> dict sym -> set(target), from the closure of states"""
        out = {}
        for s in self.closure(states):
            for sym, t in self.trans[s]:
                if sym is not None:
                    out.setdefault(sym, set()).add(t)
        return out

    def accepting(self, states):
        return self.accept in self.closure(states)

    def reachable_symbols(self, states):
        seen = set()
        syms = set()
        stack = list(self.closure(states))
        while stack:
            s = stack.pop()
            if s in seen:
                continue
            seen.add(s)
            for sym, t in self.trans[s]:
                if sym is not None:
                    syms.add(sym)
                stack.append(t)
        return syms


def build_nfas(rules):
    nfas = {}
    for name, r in rules.items():
        n = NFA()
        if r["ty"] == "atomic":
            n.add(n.start, None, n.accept)
        else:
            build(rules, r["expr"], n, n.start, n.accept, set(), atomic=False)
        nfas[name] = n
    top = NFA()
    top.add(top.start, "program", top.accept)
    nfas["__top__"] = top
    return nfas


def build(rules, e, n, a, b, inlining, atomic):
    k = e["k"]
    if k in ("str", "insens", "range", "pospred", "negpred", "peekslice", "skip"):
        n.add(a, None, b)
    elif k == "ident":
        v = e["v"]
        if v == "EOI":
            n.add(a, "EOI", b)
        elif v in BUILTINS or v not in rules:
            n.add(a, None, b)
        else:
            rr = rules[v]
            if rr["ty"] == "silent":
                if v in inlining:
                    n.add(a, None, b)  # recursive silent rule: no own pairs
                else:
                    build(rules, rr["expr"], n, a, b, inlining | {v}, atomic)
            else:
                n.add(a, v, b)
    elif k == "seq":
        m = n.new()
        build(rules, e["a"], n, a, m, inlining, atomic)
        build(rules, e["b"], n, m, b, inlining, atomic)
    elif k == "choice":
        build(rules, e["a"], n, a, b, inlining, atomic)
        build(rules, e["b"], n, a, b, inlining, atomic)
    elif k == "opt":
        n.add(a, None, b)
        build(rules, e["e"], n, a, b, inlining, atomic)
    elif k == "rep":
        m = n.new()
        n.add(a, None, m)
        n.add(m, None, b)
        build(rules, e["e"], n, m, m, inlining, atomic)
    elif k == "rep1":
        m = n.new()
        build(rules, e["e"], n, a, m, inlining, atomic)
        build(rules, e["e"], n, m, m, inlining, atomic)
        n.add(m, None, b)
    elif k == "repn":
        mn = e.get("min") or 0
        mx = e.get("max")
        cur = a
        for _ in range(mn):
            nx = n.new()
            build(rules, e["e"], n, cur, nx, inlining, atomic)
            cur = nx
        if mx is None:
            build(rules, e["e"], n, cur, cur, inlining, atomic)
            n.add(cur, None, b)
        else:
            n.add(cur, None, b)
            for _ in range(mx - mn):
                nx = n.new()
                build(rules, e["e"], n, cur, nx, inlining, atomic)
                n.add(nx, None, b)
                cur = nx
    elif k == "push":
        build(rules, e["e"], n, a, b, inlining, atomic)
    else:
        n.add(a, None, b)


# ---------------------------------------------------------------- abstract values


class PairAV:
    def __init__(self, rules, link=None):
        self.rules = frozenset(rules)
        self.link = link  # (cursor variable, {rule: positions after consuming it}, positions right after the next())

    def __repr__(self):
        return "Pair%s" % sorted(self.rules)


class PairsAV:
    def __init__(self, pos):
        self.pos = frozenset(pos)  # (rule, state)

    def __repr__(self):
        return "Pairs%s" % sorted({r for r, _ in self.pos})


class OptAV:
    def __init__(self, rules, may_none, origin="", link=None):
        self.rules = frozenset(rules)
        self.may_none = may_none
        self.origin = origin
        self.link = link


class RuleOfAV:
    def __init__(self, var, rules):
        self.var = var
        self.rules = frozenset(rules)


OTHER = object()


def join(a, b):
    if a is None:
        return b
    if b is None:
        return a
    if isinstance(a, PairAV) and isinstance(b, PairAV):
        return PairAV(a.rules | b.rules)
    if isinstance(a, PairsAV) and isinstance(b, PairsAV):
        return PairsAV(a.pos | b.pos)
    if isinstance(a, OptAV) and isinstance(b, OptAV):
        return OptAV(a.rules | b.rules, a.may_none or b.may_none, a.origin)
    return a if a is not OTHER else b


def join_env(e1, e2):
    out = {}
    for k in set(e1) | set(e2):
        out[k] = join(e1.get(k), e2.get(k))
    return out


def same(a, b):
    if type(a) is not type(b):
        return False
    if isinstance(a, PairAV):
        return a.rules == b.rules
    if isinstance(a, PairsAV):
        return a.pos == b.pos
    if isinstance(a, OptAV):
        return a.rules == b.rules and a.may_none == b.may_none
    return True


class TreeWalk:
    def __init__(self, facts):
        self.facts = facts
        self.rules = facts.grammar_rules()
        self.nfas = build_nfas(self.rules)
        self.fns = {}
        for f in facts.fns:
            ptys = " ".join(p["ty"] for p in f["params"])
            if "Pair" in ptys:
                self.fns[f["name"]] = f
        self.params = {name: {} for name in self.fns}  # fn -> {param: AV}
        self.violations = {}
        self.instances = {}
        self.asstr = {}  # id(node) -> (fn, rules) for `.as_str()` receivers
        self.opsets = {}
        for g in PRATT_BINDING:
            self.opsets[g] = grammar_op_sets(self.rules, g)

    # -------------------------------------------------------------- cursor ops
    def all_symbols(self, pairs):
        out = set()
        for r, s in pairs.pos:
            out |= self.nfas[r].reachable_symbols({s})
        return out

    def next_of(self, pairs):
        rules = set()
        newpos = set()
        may_none = False
        bysym = {}
        for r, s in pairs.pos:
            n = self.nfas[r]
            if n.accepting({s}):
                may_none = True
                newpos.add((r, s))
            for sym, ts in n.step({s}).items():
                rules.add(sym)
                for t in ts:
                    newpos.add((r, t))
                    bysym.setdefault(sym, set()).add((r, t))
        o = OptAV(rules, may_none)
        o.bysym = bysym
        return o, PairsAV(newpos)

    def into_inner(self, pair):
        return PairsAV({(r, self.nfas[r].start) for r in pair.rules if r in self.nfas})

    # -------------------------------------------------------------- reporting
    def fail(self, key, fn, node, msg, detail=None):
        if key not in self.violations:
            self.violations[key] = (fn, node, msg, detail)

    def inst(self, key, sample=None):
        self.instances.setdefault(key, sample)

    # -------------------------------------------------------------- interpretation
    def run(self):
        # seed: compile()'s use of Cc2600Parser::parse
        for rounds in range(12):
            self.changed = False
            self.violations = {}
            self.instances = {}
            for f in self.facts.fns:
                if f["name"] == "compile" and not f["qual"]:
                    self.interp_fn(f, {})
            for name, f in self.fns.items():
                if self.params[name]:
                    self.interp_fn(f, dict(self.params[name]))
            if not self.changed:
                break
        return self

    def interp_fn(self, fn, env):
        self.cur = fn
        self.exec(fn["body"], env)

    def bind_call(self, callee, args, argnodes):
        f = self.fns.get(callee)
        if f is None:
            return
        pnames = [p["name"].replace("mut ", "").strip() for p in f["params"] if p["name"] != "self"]
        for pn, av in zip(pnames, args):
            if isinstance(av, (PairAV, PairsAV)):
                old = self.params[callee].get(pn)
                new = join(old, av)
                if old is None or not same(old, new):
                    self.params[callee][pn] = new
                    self.changed = True

    def exec(self, n, env):
        """Execute statement/expression n for effects; returns AV (or OTHER). env is mutated."""
        k = n.get("k")
        if k == "block":
            v = OTHER
            for s in n["stmts"]:
                v = self.exec(s, env)
            return v
        if k == "let":
            v = self.exec(n["init"], env) if "init" in n else OTHER
            self.bind_pat(n["pat"], v, env)
            return OTHER
        if k == "path":
            if len(n["segs"]) == 1 and n["segs"][0] in env:
                return env[n["segs"][0]]
            return OTHER
        if k in ("ref", "try", "cast"):
            return self.exec(n["e"], env)
        if k == "unary":
            return self.exec(n["e"], env)
        if k == "mcall":
            return self.mcall(n, env)
        if k == "call":
            args = [self.exec(a, env) for a in n["args"]]
            ft = expr_text(n["func"])
            name = ft.split("::")[-1]
            if name in self.fns:
                self.bind_call(name, args, n["args"])
            if ft.endswith("Parser::parse") or (name == "parse" and "Rule::" in expr_text(n["args"][0] if n["args"] else {})):
                return ("result-pairs", PairsAV({("__top__", self.nfas["__top__"].start)}))
            if name in ("Some", "Ok") and args:
                return args[0] if not isinstance(args[0], tuple) else args[0]
            return OTHER
        if k == "if":
            c = n["cond"]
            env_t = dict(env)
            env_f = dict(env)
            if c.get("k") == "letcond":
                v = self.exec(c["e"], env)
                env_t = dict(env)
                env_f = dict(env)
                self.bind_cond_pat(c["pat"], v, env_t)
            else:
                self.exec(c, env)
                env_t = dict(env)
                env_f = dict(env)
            vt = self.exec(n["then"], env_t)
            vf = self.exec(n["else"], env_f) if "else" in n else OTHER
            env.clear()
            env.update(join_env(env_t, env_f))
            return join(vt if vt is not OTHER else None, vf if vf is not OTHER else None) or OTHER
        if k == "match":
            return self.match(n, env)
        if k == "for":
            it = self.exec(n["iter"], env)
            elem = OTHER
            if isinstance(it, PairsAV):
                elem = PairAV(self.all_symbols(it))
                # the cursor variable is consumed
            for _ in range(3):
                e2 = dict(env)
                self.bind_pat(n["pat"], elem, e2)
                self.exec(n["body"], e2)
                j = join_env(env, e2)
                stable = all(same(j.get(k2), env.get(k2)) for k2 in j if k2 in env)
                env.update(j)
                if stable:
                    break
            return OTHER
        if k in ("loop", "while"):
            if k == "while":
                self.exec(n["cond"], env)
            for _ in range(3):
                e2 = dict(env)
                self.exec(n["body"], e2)
                j = join_env(env, e2)
                stable = all(same(j.get(k2), env.get(k2)) for k2 in j if k2 in env)
                env.update(j)
                if stable:
                    break
            return OTHER
        if k == "closure":
            return ("closure", n)
        if k in ("assign", "assignop"):
            v = self.exec(n["r"], env)
            if n["l"].get("k") == "path" and len(n["l"]["segs"]) == 1:
                if isinstance(v, (PairAV, PairsAV, OptAV)):
                    env[n["l"]["segs"][0]] = v
            else:
                self.exec(n["l"], env)
            return OTHER
        if k == "return":
            if "e" in n:
                self.exec(n["e"], env)
            return OTHER
        if k == "macro":
            for a in n.get("args", []) or []:
                self.exec(a, env)
            return OTHER
        if k == "struct":
            for f in n["fields"]:
                self.exec(f["e"], env)
            return OTHER
        # generic: evaluate children for effects
        for c in children(n):
            self.exec(c, env)
        return OTHER

    def bind_pat(self, pat, v, env):
        k = pat.get("k")
        if k == "ident":
            if isinstance(v, (PairAV, PairsAV, OptAV)) or isinstance(v, tuple):
                env[pat["name"]] = v
            else:
                env.pop(pat["name"], None)
        elif k in ("tuple", "tstruct"):
            for e in pat.get("elems", []):
                self.bind_pat(e, OTHER, env)

    def bind_cond_pat(self, pat, v, env):
        """`if let Some(x) = v` / match arm `Some(x)` / `Ok(mut p)`."""
        if pat.get("k") == "tstruct" and pat["segs"][-1] in ("Some", "Ok") and pat["elems"]:
            inner = pat["elems"][0]
            if isinstance(v, OptAV):
                if inner.get("k") == "tstruct":
                    return
                self.bind_pat(inner, PairAV(v.rules, v.link), env)
                return
            if isinstance(v, tuple) and v[0] == "result-pairs":
                self.bind_pat(inner, v[1], env)
                return
            self.bind_pat(inner, OTHER, env)

    def mcall(self, n, env):
        m = n["method"]
        recv_node = n["recv"]
        # Pratt chain: X.map_primary(..).map_infix(..)...parse(pairs)
        if m == "parse" and self.is_pratt_chain(recv_node):
            return self.pratt(n, env)
        recv = self.exec(recv_node, env)
        args = [self.exec(a, env) for a in n["args"]]
        if recv_node.get("k") == "path" and recv_node["segs"] == ["self"] or (m in self.fns and not isinstance(recv, (PairAV, PairsAV, OptAV))):
            if m in self.fns:
                self.bind_call(m, args, n["args"])
            return OTHER
        if isinstance(recv, PairAV):
            if m == "into_inner":
                return self.into_inner(recv)
            if m == "as_rule":
                var = recv_node["segs"][0] if recv_node.get("k") == "path" and len(recv_node["segs"]) == 1 else None
                return RuleOfAV(var, recv.rules)
            if m in ("clone",):
                return recv
            if m == "as_str":
                self.asstr[id(n)] = (self.cur["name"], recv.rules)
                return OTHER
            return OTHER
        if isinstance(recv, PairsAV):
            if m == "next":
                opt, newcur = self.next_of(recv)
                if recv_node.get("k") == "path" and len(recv_node["segs"]) == 1:
                    env[recv_node["segs"][0]] = newcur
                    opt.link = (recv_node["segs"][0], opt.bysym, newcur.pos)
                opt.origin = "%s.next() on children of %s" % (expr_text(recv_node), "/".join(sorted({r for r, _ in recv.pos})))
                return opt
            if m == "peek":
                opt, _ = self.next_of(recv)
                return opt
            if m in ("clone", "by_ref"):
                return recv
            return OTHER
        if isinstance(recv, OptAV):
            if m in ("unwrap", "expect"):
                key = "T-TREEWALK:%s:unwrap:%s" % (self.cur["name"], recv.origin)
                self.inst(key, {"may_be_absent": recv.may_none, "rules": sorted(recv.rules)})
                if recv.may_none:
                    self.fail(key, self.cur, n, "%s: `%s` is unwrapped although the grammar allows the child sequence to end here (no further inner pair)" % (self.cur["name"], recv.origin))
                return PairAV(recv.rules, recv.link)
            return OTHER
        if isinstance(recv, tuple) and recv[0] == "result-pairs":
            return recv
        return OTHER

    def is_pratt_chain(self, node):
        n = node
        while n.get("k") == "mcall" and n["method"] in ("map_primary", "map_infix", "map_prefix", "map_postfix"):
            n = n["recv"]
        return n is not node and n.get("k") == "field"

    def pratt(self, n, env):
        pairs = self.exec(n["args"][0], env) if n["args"] else OTHER
        closures = {}
        c = n["recv"]
        while c.get("k") == "mcall" and c["method"].startswith("map_"):
            if c["args"] and c["args"][0].get("k") == "closure":
                closures[c["method"]] = c["args"][0]
            c = c["recv"]
        if not isinstance(pairs, PairsAV):
            return OTHER
        syms = self.all_symbols(pairs)
        parents = {r for r, _ in pairs.pos}
        pre, inf, post = set(), set(), set()
        for p in parents:
            if p in self.opsets:
                a, b, c2 = self.opsets[p]
                pre |= a
                inf |= b
                post |= c2
        prim = syms - pre - inf - post
        bind = {"map_primary": [prim], "map_infix": [None, inf & syms, None], "map_prefix": [pre & syms, None], "map_postfix": [None, post & syms]}
        for meth, cl in closures.items():
            e2 = dict(env)
            for p, rs in zip(cl["params"], bind.get(meth, [])):
                if rs is not None and p.get("k") == "ident":
                    e2[p["name"]] = PairAV(rs)
            self.exec(cl["body"], e2)
        return OTHER

    def match(self, n, env):
        sc = self.exec(n["e"], env)
        envs = []
        vals = []
        if isinstance(sc, RuleOfAV):
            remaining = set(sc.rules)
            for arm in n["arms"]:
                pats = arm["pat"]["alts"] if arm["pat"].get("k") == "or" else [arm["pat"]]
                handled = set()
                wild = False
                for p in pats:
                    if p.get("k") == "path" and len(p["segs"]) >= 2 and p["segs"][-2] == "Rule":
                        handled.add(p["segs"][-1])
                    elif p.get("k") in ("wild", "ident"):
                        wild = True
                e2 = dict(env)
                if wild:
                    here = set(remaining)
                    remaining = set()
                else:
                    here = handled & remaining
                    remaining -= handled
                if sc.var and sc.var in e2 and isinstance(e2[sc.var], PairAV):
                    link = e2[sc.var].link
                    e2[sc.var] = PairAV(here, link)
                    # the cursor this pair was taken from is where consuming exactly these rules leads
                    if link and isinstance(e2.get(link[0]), PairsAV) and e2[link[0]].pos == link[2]:
                        pos = set()
                        for r in here:
                            pos |= link[1].get(r, set())
                        e2[link[0]] = PairsAV(pos)
                pan = body_is_panic(arm["body"])
                for r in sorted(here if wild else handled):
                    key = "T-TREEWALK:%s:match %s:%s" % (self.cur["name"], expr_text(n["e"]), r)
                    self.inst(key, {"arm": pat_text(arm["pat"]), "panics": pan})
                if pan and here:
                    for r in sorted(here):
                        key = "T-TREEWALK:%s:match %s:%s" % (self.cur["name"], expr_text(n["e"]), r)
                        self.fail(key, self.cur, arm["body"], "%s: a `%s` pair can reach `match %s`, which has no arm for it (it falls into the panicking `%s` arm)" % (
                            self.cur["name"], r, expr_text(n["e"]), pat_text(arm["pat"])), {"all_possible": sorted(sc.rules)})
                if not here and not wild:
                    continue  # arm unreachable by the grammar: skip its body
                vals.append(self.exec(arm["body"], e2))
                envs.append(e2)
        else:
            for arm in n["arms"]:
                e2 = dict(env)
                p = arm["pat"]
                if p.get("k") == "tstruct":
                    self.bind_cond_pat(p, sc, e2)
                elif p.get("k") == "ident":
                    self.bind_pat(p, sc, e2)
                vals.append(self.exec(arm["body"], e2))
                envs.append(e2)
        if envs:
            j = envs[0]
            for e2 in envs[1:]:
                j = join_env(j, e2)
            env.clear()
            env.update(j)
        out = None
        for v in vals:
            if v is not OTHER:
                out = join(out, v)
        return out if out is not None else OTHER


_cache = {}


def treewalk(facts):
    key = id(facts)
    if key not in _cache:
        _cache[key] = TreeWalk(facts).run()
    return _cache[key]


@rule("T-TREEWALK", floor=150,
      text="every parse-tree shape the grammar can produce is handled by the code that walks it: no `match x.as_rule()` can receive a rule for which it only has a panicking arm, and no `.next().unwrap()` is applied where the grammar lets the child sequence end (abstract interpretation of the tree-walking functions over per-rule child automata derived from cc6502.pest)")
def t_treewalk(facts, res, tier):
    tw = treewalk(facts)
    for key, sample in sorted(tw.instances.items()):
        res.inst(key, True, sample)
    for key, (fn, node, msg, detail) in sorted(tw.violations.items()):
        res.fail(key, facts.where(fn, node), msg, detail)
    res.note("tree-walking functions analysed: %s" % sorted(n for n, p in tw.params.items() if p))
    unreached = sorted(n for n, p in tw.params.items() if not p)
    if unreached:
        res.note("functions taking Pair/Pairs never reached from compile(): %s" % unreached)
    res.exhaustive = True
