"""Rule framework: registration, running, known findings, evidence, exit status."""
import json
import os
import sys
import time
import traceback

from astlib import VERIF, AnchorMissing, FactsError, load_facts

RULES = {}  # rule id -> Rule
PROPS = {}  # property id -> list of (rule id, tiers)


class Violation:
    def __init__(self, key, where, msg, detail=None):
        self.key = key
        self.where = where
        self.msg = msg
        self.detail = detail or {}

    def to_json(self):
        return {"key": self.key, "where": self.where, "msg": self.msg, "detail": self.detail}


class Result:
    def __init__(self):
        self.instances = []  # (key, nontrivial: bool, sample)
        self.violations = []
        self.notes = []
        self.exhaustive = None

    def inst(self, key, nontrivial=True, sample=None):
        self.instances.append((key, nontrivial, sample))

    def fail(self, key, where, msg, detail=None):
        self.violations.append(Violation(key, where, msg, detail))

    def note(self, s):
        self.notes.append(s)


class Rule:
    def __init__(self, rid, fn, configs, floor, text, engine):
        self.id = rid
        self.fn = fn
        self.configs = configs
        self.floor = floor
        self.text = text
        self.engine = engine


def rule(rid, configs=("default",), floor=1, text="", engine="astx"):
    def deco(fn):
        RULES[rid] = Rule(rid, fn, configs, floor, text or (fn.__doc__ or "").strip(), engine)
        return fn
    return deco


def prop(pid, rule_ids, thorough_only=()):
    PROPS[pid] = [(r, "thorough" if r in thorough_only else "quick") for r in rule_ids]


def run_rule(r, tier, only_config=None):
    """Run one rule over its configurations; merge results (dedupe by key)."""
    merged = Result()
    seen_inst = set()
    seen_v = set()
    configs = r.configs
    if tier == "thorough" and tuple(configs) == ("default",):
        # the thorough tier repeats every feature-independent rule under each Cargo feature
        # configuration the downstream compilers build (the cfg'd code differs between them)
        from astlib import CONFIGS
        configs = tuple(CONFIGS.keys())
    per_config_counts = {}
    for cfg in configs:
        if only_config and cfg != only_config:
            continue
        res = Result()
        try:
            if r.engine == "astx":
                facts = load_facts(cfg)
                r.fn(facts, res, tier)
            else:
                import mirlib
                facts = mirlib.load_mir(cfg)
                r.fn(facts, res, tier)
        except AnchorMissing as e:
            res.fail("%s:ANCHOR-MISSING" % r.id, "(config %s)" % cfg,
                     "the construct this rule analyses was not found or not readable: %s" % e)
        except FactsError as e:
            res.fail("%s:FACTS" % r.id, "(config %s)" % cfg, "fact extraction failed: %s" % e)
        except Exception as e:  # fail closed
            res.fail("%s:INTERNAL" % r.id, "(config %s)" % cfg,
                     "rule crashed (treated as a failure, not as success): %s: %s" % (type(e).__name__, e),
                     {"traceback": traceback.format_exc()[-3000:]})
        per_config_counts[cfg] = len(res.instances)
        if len(res.instances) < r.floor and not any(v.key.endswith((":ANCHOR-MISSING", ":FACTS", ":INTERNAL")) for v in res.violations):
            res.fail("%s:FLOOR" % r.id, "(config %s)" % cfg,
                     "rule matched %d instances, fewer than the %d confirmed by hand on the pinned tree: the rule would pass vacuously" % (len(res.instances), r.floor))
        for key, nt, sample in res.instances:
            if key not in seen_inst:
                seen_inst.add(key)
                merged.instances.append((key, nt, sample))
        for v in res.violations:
            if v.key not in seen_v:
                seen_v.add(v.key)
                v.detail.setdefault("config", cfg)
                merged.violations.append(v)
        merged.notes.extend(n for n in res.notes if n not in merged.notes)
        if res.exhaustive is not None:
            merged.exhaustive = res.exhaustive if merged.exhaustive is None else (merged.exhaustive and res.exhaustive)
    merged.per_config = per_config_counts
    return merged


def load_known():
    p = os.path.join(VERIF, "known_findings.json")
    if not os.path.exists(p):
        return {"findings": [], "fixed": []}
    with open(p) as fh:
        return json.load(fh)


def check_property(pid, tier, replay=None, out=sys.stdout):
    t0 = time.time()
    if pid not in PROPS:
        print("unknown property %s" % pid, file=out)
        return 2
    known = load_known()
    known_keys = {}
    for f in known.get("findings", []):
        if f["property"] == pid:
            known_keys[f["key"]] = f
    rules = [rid for rid, t in PROPS[pid] if t == "quick" or tier == "thorough"]
    if replay:
        with open(replay) as fh:
            rp = json.load(fh)
        rules = [rp["rule"]]
    all_inst = []
    all_viol = []
    per_rule = {}
    notes = []
    exhaustive_rules = []
    for rid in rules:
        r = RULES[rid]
        res = run_rule(r, tier)
        per_rule[rid] = {"instances": len(res.instances), "violations": len(res.violations),
                         "nontrivial": sum(1 for _, nt, _ in res.instances if nt),
                         "per_config": getattr(res, "per_config", {}), "rule": r.text}
        if res.exhaustive:
            exhaustive_rules.append(rid)
        for key, nt, sample in res.instances:
            all_inst.append((rid, key, nt, sample))
        for v in res.violations:
            all_viol.append((rid, v))
        notes.extend(res.notes)

    new_viol = []
    known_hit = []
    for rid, v in all_viol:
        if v.key in known_keys:
            known_hit.append((rid, v))
        else:
            new_viol.append((rid, v))

    EVDIR = os.environ.get("VERIF_EVIDENCE_DIR") or os.path.join(VERIF, "evidence")
    os.makedirs(os.path.join(EVDIR, "replay"), exist_ok=True)
    for rid, v in known_hit:
        print("KNOWN-FINDING: property=%s %s %s" % (pid, v.key, known_keys[v.key].get("what", v.msg)), file=out)
    n = 0
    for rid, v in new_viol:
        n += 1
        rpath = os.path.join(EVDIR, "replay", "%s-%d.json" % (pid, n))
        with open(rpath, "w") as fh:
            json.dump({"property": pid, "rule": rid, "rule_text": RULES[rid].text, "violation": v.to_json()}, fh, indent=1)
        print("  [%s] %s\n      at %s\n      %s" % (rid, v.key, v.where, v.msg), file=out)
        print("VIOLATION property=%s replay=%s" % (pid, rpath), file=out)

    # evidence -----------------------------------------------------------
    distinct_keys = set()
    nontrivial = 0
    for rid, key, nt, sample in all_inst:
        if key not in distinct_keys:
            distinct_keys.add(key)
            if nt:
                nontrivial += 1
    samples = []
    per_rule_samples = {}
    for rid, key, nt, sample in all_inst:
        if per_rule_samples.get(rid, 0) < 3:
            per_rule_samples[rid] = per_rule_samples.get(rid, 0) + 1
            samples.append({"rule": rid, "instance": key, "detail": sample})
    ev = {
        "property_id": pid,
        "tier": tier,
        "seed": int(os.environ.get("VERIF_SEED", "0") or 0),
        "level": "other",
        "coverage": {
            "explanation": EXPLAIN.get(pid, "static rules over /repo's current source; see DESIGN.md"),
            "evaluations": len(all_inst),
            "distinct_nontrivial": nontrivial,
            "rule": "an instance is one obligation of a rule (table row, call site, grammar/walker edge, path family) extracted from the current tree; distinct = distinct instance key; non-trivial = the row/site actually constrains behaviour (rule-specific, counted by the rule)",
            "obligations": len(distinct_keys),
            "discharged": len(distinct_keys) - len({v.key for _, v in all_viol}),
            "samples": samples[:40],
            "rules": per_rule,
            "exhaustive": bool(exhaustive_rules) and len(exhaustive_rules) == len(rules),
            "exhaustive_rules": exhaustive_rules,
            "known_findings_reported": [v.key for _, v in known_hit],
            "new_violations": [v.to_json() for _, v in new_viol][:50],
            "notes": notes[:50],
        },
        "assumptions": ASSUME.get(pid, []),
        "wall_s": round(time.time() - t0, 3),
        "violations": len(new_viol),
    }
    with open(os.path.join(EVDIR, "%s.json" % pid), "w") as fh:
        json.dump(ev, fh, indent=1)
    print("%s %s: %d rules, %d instances (%d distinct non-trivial), %d known findings, %d new violations, %.1fs" % (
        pid, tier, len(rules), len(all_inst), nontrivial, len(known_hit), len(new_viol), time.time() - t0), file=out)
    return 1 if new_viol else 0


EXPLAIN = {}
ASSUME = {}
