"""Preprocessor rules: conditional-compilation automaton and guards (C07), macro regexes and
parallel tables (C08), line mapping and error locations (C06)."""
import json
import os
import re

from astlib import AnchorMissing, expr_text, pat_text, walk, children, VERIF, regex_asts
from core import rule
from walker import Walker, Const, EnumV, Sym, Fmt, Tup, Unknown, StructV, BinOp, Outcome, norm_ty

with open(os.path.join(VERIF, "ref", "cpp_automaton.json")) as _fh:
    CPP = json.load(_fh)

_cache = {}
DIRECTIVES = ["#ifdef", "#ifndef", "#undef", "#define", "#include", "#if", "#elif", "#else", "#endif", "#error"]
SIDE_EFFECT_METHODS = {"define", "define_ex", "undefine", "write_all", "write"}


def process_paths(facts):
    """Paths through the per-line directive dispatch of cpp::process."""
    key = ("cpp", id(facts))
    if key in _cache:
        return _cache[key]
    fn = facts.fn("process", "")
    state_ty = "State"
    # the state variable: a `let mut X = State::Active`
    state_var = None
    for n in walk(fn["body"]):
        if n.get("k") == "let" and n["pat"].get("k") == "ident" and "init" in n and expr_text(n["init"]).startswith("State::"):
            state_var = n["pat"]["name"]
            break
    if state_var is None:
        raise AnchorMissing("process(): state variable (let mut .. = State::Active) not found")
    # the dispatch block: the `if <flag>` whose body mentions "#ifdef"
    blk = None
    for n in walk(fn["body"]):
        if n.get("k") == "if" and '"#ifdef"' in expr_text(n["then"]) and '"#endif"' in expr_text(n["then"]):
            blk = n  # innermost wins (walk is pre-order: keep last)
    if blk is None:
        raise AnchorMissing("process(): directive dispatch block not found")

    def snapshot(st):
        v = st.env.get(state_var)
        if isinstance(v, EnumV):
            return {v.variant}
        if isinstance(v, Sym):
            a, e = st.cons.get(v.key, (None, frozenset()))
            return set(a) if a is not None else set(facts.enum_variants(state_ty)) - set(e)
        return None

    def hook(w, st, node, name, recv, args):
        k = node.get("k")
        if k == "mcall":
            rt = expr_text(node["recv"])
            if name in ("define", "define_ex", "undefine") and rt.startswith("context"):
                st.events.append({"kind": "effect", "what": name, "state": snapshot(st), "node": node})
                return Unknown("()")
            if name in ("write_all", "write") and rt.startswith("output"):
                st.events.append({"kind": "effect", "what": "output." + name, "state": snapshot(st), "node": node, "args": list(args)})
                return Unknown("io")
            if name == "push" and rt == "lines":
                st.events.append({"kind": "effect", "what": "lines.push", "state": snapshot(st), "node": node, "args": list(args)})
                return Unknown("()")
            if name == "append" and rt == "lines":
                st.events.append({"kind": "effect", "what": "lines.append", "state": snapshot(st), "node": node})
                return Unknown("()")
            if name == "push" and rt == "stack":
                st.events.append({"kind": "stack", "what": "push", "state": snapshot(st), "arg": args[0] if args else None, "node": node})
                return Unknown("()")
            if name == "pop" and rt == "stack":
                st.events.append({"kind": "stack", "what": "pop", "state": snapshot(st), "node": node})
                return Sym("stack.pop()", "Option < State >")
            if name == "evaluate" and rt.startswith("context"):
                st.events.append({"kind": "evaluate", "state": snapshot(st), "node": node})
                return Sym("evaluate#%d" % len(st.events), "Result < bool , Error >")
            if name == "get_macro" and rt.startswith("context"):
                return Sym("get_macro#%s" % expr_text(node["args"][0]), "Option < String >")
            if name == "push" and rt.startswith("context.includes_stack"):
                st.events.append({"kind": "effect", "what": "includes_stack.push", "state": snapshot(st), "node": node})
                return Unknown("()")
        if k == "call" and name.split("::")[-1] == "process":
            st.events.append({"kind": "effect", "what": "include-recursion", "state": snapshot(st), "node": node})
            return Unknown("lines")
        if k == "call" and name.endswith("File::open"):
            st.events.append({"kind": "effect", "what": "File::open", "state": snapshot(st), "node": node})
            return Unknown("file")
        return None

    w = Walker(facts, fn, hooks={"on_call": hook})
    st0 = w.init.copy()
    st0.env[state_var] = Sym(state_var, state_ty)
    outs = w.eval(blk["then"], st0)
    paths = []
    for o in outs:
        st = o.state
        # which directive?
        directive = None
        for a, t in st.atoms.items():
            if not t:
                continue
            m = re.search(r'["\'](#[a-z]+)["\']', a)
            if m and ("starts_with" in a or " is " in a or "==" in a) and m.group(1) != "#":
                directive = m.group(1)
        if directive is None:
            hash_atoms = [(a, t) for a, t in st.atoms.items() if 'starts_with(\'#\')' in a or "starts_with('#')" in a or 'starts_with("#")' in a]
            if any(t for a, t in hash_atoms):
                directive = "#<other>"
            else:
                directive = "<text>"
        init = st.cons.get(state_var, (None, frozenset()))
        init_dom = set(init[0]) if init[0] is not None else set(facts.enum_variants(state_ty)) - set(init[1])
        fv = st.env.get(state_var)
        if isinstance(fv, EnumV):
            final = fv.variant
        elif isinstance(fv, Sym) and fv.key == state_var:
            final = "same"
        elif isinstance(fv, Sym) and fv.key.startswith("stack.pop()"):
            final = "popped"
        else:
            final = repr(fv)
        # condition truth
        cond = None
        for k2, (a, e) in st.cons.items():
            if k2.startswith("evaluate#") and a is not None and len(a) == 1:
                cond = next(iter(a))
            if k2.startswith("get_macro#") and a is not None and len(a) == 1:
                cond = next(iter(a)) == "Some"  # defined
        err = isinstance(o.value, EnumV) and o.value.variant == "Err" or (o.kind == "ret" and isinstance(o.value, (Sym, Unknown)) and False)
        is_err_exit = o.kind == "ret" and isinstance(o.value, EnumV) and o.value.variant == "Err"
        paths.append({"directive": directive, "init": init_dom, "final": final, "cond": cond, "events": st.events,
                      "err": is_err_exit, "value": o.value, "kind": o.kind, "state": st})
    _cache[key] = (fn, blk, paths, state_var)
    return _cache[key]


@rule("T-CPP-FSM", floor=30,
      text="the conditional-compilation transitions extracted from process() for #ifdef/#ifndef/#if (push; Active&cond->Active, Active&!cond->Inactive, else Skip), #elif (Inactive&cond->Active, Inactive&!cond->Inactive, else Skip), #else (Inactive->Active, else Skip) and #endif (pop) equal the reference 3-state machine for every state and condition value (ref/cpp_automaton.json)")
def t_cpp_fsm(facts, res, tier):
    fn, blk, paths, sv = process_paths(facts)
    states = ["Active", "Inactive", "Skip"]
    def want(directive, s, cond):
        if directive in ("#if", "#ifdef", "#ifndef"):
            c = cond if directive != "#ifndef" else (not cond)
            return CPP["open"][s]["true" if c else "false"], "push"
        if directive == "#elif":
            return CPP["elif"][s]["true" if cond else "false"], None
        if directive == "#else":
            return CPP["else"][s], None
        if directive == "#endif":
            return "popped", "pop"
    for d in ("#ifdef", "#ifndef", "#if", "#elif", "#else", "#endif"):
        dpaths = [p for p in paths if p["directive"] == d and not p["err"]]
        if not dpaths:
            res.inst("T-CPP-FSM:%s" % d)
            res.fail("T-CPP-FSM:%s" % d, facts.where(fn, blk), "no path handling %s found" % d)
            continue
        for s in states:
            for cond in ((True, False) if d not in ("#else", "#endif") else (None,)):
                key = "T-CPP-FSM:%s:%s:%s" % (d, s, {True: "cond", False: "!cond", None: "-"}[cond])
                cands = [p for p in dpaths if s in p["init"] and (p["cond"] is None or cond is None or p["cond"] == cond)]
                # for #ifdef/#ifndef `cond` means "macro defined"
                if len(cands) != 1:
                    res.inst(key)
                    res.fail(key, facts.where(fn, blk), "expected one path for %s in state %s (cond %s), found %d" % (d, s, cond, len(cands)))
                    continue
                p = cands[0]
                got = p["final"] if p["final"] != "same" else s
                stack_ops = [e["what"] for e in p["events"] if e["kind"] == "stack"]
                w_state, w_stack = want(d, s, cond)
                res.inst(key, True, {"directive": d, "state": s, "cond": cond, "next": got, "stack": stack_ops})
                if got != w_state:
                    res.fail(key, facts.where(fn, blk), "%s in state %s (%s): next state is %s, reference says %s" % (
                        d, s, "condition true/defined" if cond else ("condition false/undefined" if cond is False else "-"), got, w_state))
                if (w_stack == "push") != (stack_ops == ["push"]) and w_stack != "pop":
                    res.fail(key, facts.where(fn, blk), "%s must save the enclosing state exactly once (stack ops: %s)" % (d, stack_ops))
                if w_stack == "push":
                    pushed = [e for e in p["events"] if e["kind"] == "stack" and e["what"] == "push"]
                    if pushed and not (isinstance(pushed[0]["arg"], Sym) and pushed[0]["arg"].key == sv):
                        res.fail(key, facts.where(fn, blk), "%s does not push the *current* state" % d)
                if w_stack == "pop" and stack_ops != ["pop"]:
                    res.fail(key, facts.where(fn, blk), "#endif must restore the saved state exactly once (stack ops: %s)" % stack_ops)
                if w_stack is None and stack_ops:
                    res.fail(key, facts.where(fn, blk), "%s must not touch the state stack (stack ops: %s)" % (d, stack_ops))
    res.exhaustive = True


@rule("T-CPP-GUARD", floor=8,
      text="every effect of a directive or text line in process() (define, define_ex, undefine, #include recursion and file open, #error return, output write, mapping push) happens only on paths where the conditional state is Active; #if evaluates its expression only when Active and #elif only when Inactive")
def t_cpp_guard(facts, res, tier):
    fn, blk, paths, sv = process_paths(facts)
    seen = {}
    for p in paths:
        for e in p["events"]:
            if e["kind"] == "effect":
                key = "T-CPP-GUARD:%s:%s" % (p["directive"], e["what"])
                ok = e["state"] == {"Active"}
                seen.setdefault(key, []).append((ok, e, p))
            elif e["kind"] == "evaluate":
                key = "T-CPP-GUARD:%s:evaluate" % p["directive"]
                want = {"Active"} if p["directive"] == "#if" else {"Inactive"}
                seen.setdefault(key, []).append((e["state"] == want, e, p))
        if p["directive"] == "#error" and p["err"] and isinstance(p["value"], EnumV):
            inner = p["value"].payload[0] if p["value"].payload else None
            if isinstance(inner, StructV) and inner.name.endswith("Compiler"):
                key = "T-CPP-GUARD:#error:return"
                seen.setdefault(key, []).append((p["init"] == {"Active"}, {"node": blk, "state": p["init"]}, p))
    # a directive of an unselected region has no effect at all - not even a complaint about its operand: inside the code of
    # #error / #define / #undef / #include every `?` and every `return Err(..)` lies under the test `state == State::Active`
    from scopes import scoped
    for node, env, doms in scoped(fn):
        if node.get("k") not in ("try", "return"):
            continue
        if node.get("k") == "return" and "Err" not in expr_text(node):
            continue
        directive = None
        active = False
        for d in doms:
            if d[0] == "cond" and d[2]:
                t = expr_text(d[1]).replace(" ", "")
                m = re.search(r'directive==\"(#\w+)\"', t) or re.search(r'directive==("?)(#\w+)\1', t)
                if m:
                    directive = m.group(m.lastindex)
                if re.search(r"%s==State::Active" % re.escape(sv), t):
                    active = True
            if d[0] == "arm" and isinstance(d[2], dict) and d[2].get("k") == "lit" and str(d[2].get("v", "")).startswith("#"):
                directive = d[2]["v"]
        if directive in ("#error", "#define", "#undef", "#include"):
            key = "T-CPP-GUARD:%s:error-return" % directive
            seen.setdefault(key, []).append((active, {"node": node, "state": None if active else {"any"}}, None))
    for key, lst in sorted(seen.items()):
        res.inst(key, True, {"sites": len(lst)})
        bad = [x for x in lst if not x[0]]
        if bad:
            ok, e, p = bad[0]
            res.fail(key, facts.where(fn, e["node"]), "%s can happen while the conditional state is %s" % (key.split(":", 1)[1], sorted(e["state"] or ["?"])))
    need = ["T-CPP-GUARD:#define:define", "T-CPP-GUARD:#define:define_ex", "T-CPP-GUARD:#undef:undefine",
            "T-CPP-GUARD:#include:include-recursion", "T-CPP-GUARD:<text>:output.write_all", "T-CPP-GUARD:<text>:lines.push",
            "T-CPP-GUARD:#error:return", "T-CPP-GUARD:#if:evaluate", "T-CPP-GUARD:#elif:evaluate"]
    for k in need:
        if k not in seen:
            res.inst(k)
            res.fail(k, facts.where(fn, blk), "expected effect site not found (the rule would pass vacuously): %s" % k)
    res.exhaustive = True


@rule("T-CPP-EVAL", floor=3,
      text="the #if evaluator implements `==` as equality of the two truth values (result ^= !rhs), `!` as negation counted per occurrence, and a numeric term as true exactly for 1")
def t_cpp_eval(facts, res, tier):
    eq = facts.fn("eval_eq", "Context")
    un = facts.fn("eval_unary", "Context")
    tm = facts.fn("eval_term", "Context")
    # eval_eq: inside the `while starts_with("==")` loop: result ^= !rhs   (xnor)  or result = result == rhs
    key = "T-CPP-EVAL:=="
    res.inst(key)
    ok = False
    for n in walk(eq["body"]):
        if n.get("k") == "while" and '"=="' in expr_text(n["cond"]):
            for a in walk(n["body"]):
                if a.get("k") == "assignop" and a["op"] == "^" and a["r"].get("k") == "unary" and a["r"]["op"] == "!" and "eval_unary" in expr_text(a["r"]):
                    ok = True
                if a.get("k") == "assign" and a["r"].get("k") == "binary" and a["r"]["op"] == "==" and "eval_unary" in expr_text(a["r"]):
                    ok = True
    if not ok:
        res.fail(key, facts.where(eq), "`==` in #if expressions is not implemented as equality of the two operand truth values")
    key = "T-CPP-EVAL:!"
    res.inst(key)
    ok = False
    toggles = False
    for n in walk(un["body"]):
        if n.get("k") == "while" and "'!'" in expr_text(n["cond"]).replace('"', "'"):
            for a in walk(n["body"]):
                if a.get("k") == "assign" and expr_text(a["r"]) == "!" + expr_text(a["l"]):
                    toggles = True
    last = un["body"]["stmts"][-1]
    lt = expr_text(last)
    if toggles and "^" in lt and "eval_term" in lt:
        ok = True
    if not ok:
        res.fail(key, facts.where(un), "`!` does not negate the term once per occurrence")
    key = "T-CPP-EVAL:term"
    res.inst(key)
    ok = any(n.get("k") == "binary" and n["op"] == "==" and expr_text(n["r"]) == '"1"' for n in walk(tm["body"]))
    if not ok:
        res.fail(key, facts.where(tm), "a numeric term is not compared with \"1\"")


# ----------------------------------------------------------------------------- C08


def fmt_strings(fn):
    """(node, template) for each format! literal in fn."""
    for n in walk(fn["body"]):
        if n.get("k") == "macro" and n["name"] == "format" and n.get("args") and n["args"][0].get("k") == "lit":
            yield n, n["args"][0]["v"]


def flat(ast):
    """Concatenation items of a regex AST as a list."""
    if ast["k"] == "concat":
        return ast["es"]
    return [ast]


def class_excludes(node, chars):
    """Does a (possibly negated) bracket class exclude all of chars?"""
    if node["k"] != "class":
        return False
    items = []
    def collect(s):
        if s["k"] == "union":
            for i in s["items"]:
                collect(i)
        else:
            items.append(s)
    collect(node["set"])
    lits = {i["c"] for i in items if i["k"] == "lit"}
    if node["neg"]:
        return all(c in lits for c in chars)
    return not any(c in lits for c in chars) and all(i["k"] == "lit" for i in items)


@rule("T-CPP-REGEX", floor=3,
      text="every regex built from a macro or parameter name has a word-boundary assertion immediately before the name and a word boundary (object-like macro, parameter) or a literal `(` (function-like macro) immediately after it; every parameter capture group matches no top-level `,` `(` `)` outside balanced parentheses")
def t_cpp_regex(facts, res, tier):
    sites = []
    for fname, qual in (("define", "Context"), ("process", "")):
        fn = facts.fn(fname, qual)
        for node, tmpl in fmt_strings(fn):
            if "\\b" in tmpl or "(?P<" in tmpl:
                sites.append((fn, node, tmpl))
    pats = []
    for fn, node, tmpl in sites:
        # substitute the format holes by a placeholder identifier
        p = re.sub(r"\{[^}]*\}", "NAME", tmpl.replace("{{", "\x00").replace("}}", "\x01")).replace("\x00", "{").replace("\x01", "}")
        pats.append(p)
    asts = regex_asts(pats) if pats else []
    n_name = 0
    for (fn, node, tmpl), pa in zip(sites, asts):
        if "error" in pa:
            # a fragment (e.g. the parameter group followed by ',') may not parse alone: wrap
            continue
        items = flat(pa["ast"])
        # name sites: literal run N,A,M,E
        txt = "".join(i["c"] if i["k"] == "lit" else "\x02" for i in items)
        idx = txt.find("NAME")
        if tmpl.startswith("\\b") or idx >= 0 and "(?P<" not in tmpl:
            n_name += 1
            kind = "function-like" if tmpl.endswith("\\(") else "object-like/parameter"
            key = "T-CPP-REGEX:%s:%s" % (fn["name"], kind)
            res.inst(key, True, {"template": tmpl, "in": fn["name"]})
            if idx < 0:
                res.fail(key, facts.where(fn, node), "cannot find the name in regex template %r" % tmpl)
                continue
            before = items[idx - 1] if idx > 0 else None
            after = items[idx + 4] if idx + 4 < len(items) else None
            if not (before and before["k"] == "assert" and before["kind"] == "word_boundary"):
                res.fail(key, facts.where(fn, node), "regex %r has no word boundary immediately before the name: the macro would be replaced inside longer identifiers" % tmpl)
            if kind == "function-like":
                if not (after and after["k"] == "lit" and after["c"] == "("):
                    res.fail(key, facts.where(fn, node), "function-like macro regex %r does not require `(` right after the name" % tmpl)
            else:
                if not (after and after["k"] == "assert" and after["kind"] == "word_boundary"):
                    res.fail(key, facts.where(fn, node), "regex %r has no word boundary immediately after the name: the macro would be replaced inside longer identifiers" % tmpl)
    # parameter capture groups
    n_groups = 0
    for (fn, node, tmpl), pa in zip(sites, asts):
        if "(?P<" not in tmpl:
            continue
        key = "T-CPP-REGEX:%s:param-group" % fn["name"]
        n_groups += 1
        res.inst(key, True, {"template": tmpl})
        if "error" in pa:
            res.fail(key, facts.where(fn, node), "parameter regex does not parse: %s" % pa["error"])
            continue
        items = flat(pa["ast"])
        grp = [i for i in items if i["k"] == "group" and i["kind"] == "named"]
        if len(grp) != 1:
            res.fail(key, facts.where(fn, node), "expected one named capture group per parameter")
            continue
        # top level of the group: (alt of class | parenthesised)* ; every top-level class must exclude , ( )
        def top_classes(a):
            if a["k"] == "rep":
                return top_classes(a["e"])
            if a["k"] == "group":
                return top_classes(a["e"])
            if a["k"] == "alt":
                out = []
                for e in a["es"]:
                    out += top_classes(e)
                return out
            if a["k"] == "class":
                return [a]
            if a["k"] == "concat":
                # a parenthesised alternative: \( ... \)  -- balanced by construction if it starts with ( and ends with )
                es = a["es"]
                if es and es[0]["k"] == "lit" and es[0]["c"] == "(" and es[-1]["k"] == "lit" and es[-1]["c"] == ")":
                    return []
                return [{"k": "bad", "why": "unbalanced alternative"}]
            if a["k"] in ("dot",):
                return [{"k": "bad", "why": "`.` matches separators"}]
            if a["k"] == "lit":
                return [{"k": "badlit", "c": a["c"]}] if a["c"] in ",()" else []
            return []
        for c in top_classes(grp[0]["e"]):
            if c["k"] == "class":
                if not class_excludes(c, ",()"):
                    res.fail(key, facts.where(fn, node), "parameter capture group admits a top-level `,` `(` or `)`: arguments would not be split at the first top-level comma")
            else:
                res.fail(key, facts.where(fn, node), "parameter capture group is not a separator-free class / balanced-parenthesis alternation (%s)" % c.get("why", c.get("c")))
        after = items[items.index(grp[0]) + 1] if items.index(grp[0]) + 1 < len(items) else None
        if not (after and after["k"] == "lit" and after["c"] == ","):
            res.fail(key, facts.where(fn, node), "parameter group is not followed by the `,` separator")
    if n_groups == 0:
        res.inst("T-CPP-REGEX:param-group")
        res.fail("T-CPP-REGEX:param-group", "src/cpp.rs", "no parameter capture-group template found")


def walk_inl(facts, fn, depth=2):
    """Nodes of fn's body, plus the bodies of argument-less helper methods of the same impl it calls on self
    (so that extracting a helper is not mistaken for removing the code)."""
    for n in walk(fn["body"]):
        yield n
        if depth > 0 and n.get("k") == "mcall" and n["recv"].get("k") == "path" and n["recv"]["segs"] == ["self"] and not n["args"]:
            for h in facts.fns_named(n["method"]):
                if h["qual"] == fn["qual"] and h is not fn:
                    for m in walk_inl(facts, h, depth - 1):
                        yield m


@rule("T-CPP-PARALLEL", floor=6,
      text="define, define_ex and undefine keep the four parallel macro tables (defs_ex, defs_ex_ex, regexes, regex_sets) in step: the same chunk and index are used for every table, the 100-entry roll-over appends a chunk to all four, and undefine rebuilds the regex set of the chunk it edited")
def t_cpp_parallel(facts, res, tier):
    tables = ["defs_ex", "defs_ex_ex", "regexes"]
    for fname in ("define", "define_ex"):
        fn = facts.fn(fname, "Context")
        pushes = {}
        for n in walk_inl(facts, fn):
            if n.get("k") == "mcall" and n["method"] == "push":
                rt = expr_text(n["recv"])
                m = re.match(r"^self\.(\w+)(\.last_mut\(\)\.unwrap\(\))?$", rt)
                if m:
                    pushes.setdefault(m.group(1), []).append("elem" if m.group(2) else "chunk")
        for t in tables + ["regex_sets"]:
            key = "T-CPP-PARALLEL:%s:%s" % (fname, t)
            res.inst(key, True, {"pushes": pushes.get(t, [])})
            want = ["elem", "chunk"] if t != "regex_sets" else ["chunk"]
            if sorted(pushes.get(t, [])) != sorted(want):
                res.fail(key, facts.where(fn), "%s: table %s gets %s, expected %s (element push into the last chunk and a new chunk at roll-over)" % (fname, t, pushes.get(t, []), want))
        # regex set of the last chunk rebuilt from defs_ex_ex.last()
        key = "T-CPP-PARALLEL:%s:regex_set-rebuild" % fname
        res.inst(key)
        ok = any(n.get("k") == "assign" and "regex_sets.last_mut()" in expr_text(n["l"]) and "RegexSet::new(self.defs_ex_ex.last().unwrap())" in expr_text(n["r"]) for n in walk_inl(facts, fn))
        if not ok:
            res.fail(key, facts.where(fn), "%s does not rebuild the last chunk's RegexSet from defs_ex_ex" % fname)
        # order: the element goes into the last chunk, that chunk's set is rebuilt, and only then may a new
        # chunk be opened - `last()` changes meaning at the roll-over
        key = "T-CPP-PARALLEL:%s:order" % fname
        seq = []
        for n in walk_inl(facts, fn):
            if n.get("k") == "mcall" and n["method"] == "push":
                m = re.match(r"^self\.(\w+)(\.last_mut\(\)\.unwrap\(\))?$", expr_text(n["recv"]))
                if m and m.group(1) in tables + ["regex_sets"]:
                    seq.append(("elem" if m.group(2) else "chunk", m.group(1)))
            if n.get("k") == "assign" and "regex_sets.last_mut()" in expr_text(n["l"]):
                seq.append(("rebuild", "regex_sets"))
        res.inst(key, True, {"sequence": ["%s:%s" % x for x in seq]})
        kinds = [x[0] for x in seq]
        if "rebuild" in kinds and "chunk" in kinds and "elem" in kinds:
            last_elem = max(i for i, x in enumerate(kinds) if x == "elem")
            first_chunk = min(i for i, x in enumerate(kinds) if x == "chunk")
            rb = [i for i, x in enumerate(kinds) if x == "rebuild"]
            if not any(last_elem < i < first_chunk for i in rb):
                res.fail(key, facts.where(fn), "%s: the regex set is not rebuilt between the push into the last chunk and the opening of a new chunk (sequence %s): at the roll-over `last()` is the new, empty chunk, so the full chunk keeps a set without its newest macro and that macro is never expanded" % (fname, ["%s:%s" % x for x in seq]))
        # roll-over: all four pushed under one condition
        key = "T-CPP-PARALLEL:%s:rollover" % fname
        res.inst(key)
        ok = False
        for n in walk_inl(facts, fn):
            if n.get("k") == "if" and "len()" in expr_text(n["cond"]):
                t = expr_text(n["then"])
                if all(("self.%s.push(" % x) in t for x in tables + ["regex_sets"]):
                    ok = True
        if not ok:
            res.fail(key, facts.where(fn), "%s: roll-over does not append a new chunk to all four tables together" % fname)
        # a macro that is recorded in `defs` (so #ifdef sees it) is in the pattern tables too (so it is replaced): the insert and
        # the three element pushes are statements of the function body itself, with no way out of the function between them
        key = "T-CPP-PARALLEL:%s:unconditional" % fname
        top = fn["body"].get("stmts") or []
        def _top_index(pred):
            for ti, st in enumerate(top):
                e = st
                while isinstance(e, dict) and e.get("k") in ("try", "paren"):
                    e = e["e"]
                if isinstance(e, dict) and pred(e):
                    return ti
            return None
        i_ins = _top_index(lambda e: e.get("k") == "mcall" and e["method"] == "insert" and expr_text(e["recv"]) == "self.defs")
        i_push = [_top_index(lambda e, t=t: e.get("k") == "mcall" and e["method"] == "push" and expr_text(e["recv"]) == "self.%s.last_mut().unwrap()" % t) for t in tables]
        res.inst(key, True, {"defs_insert_statement": i_ins, "push_statements": i_push})
        if i_ins is None or any(x is None for x in i_push):
            res.fail(key, facts.where(fn), "%s: the insertion into `defs` or a push into a pattern table is not a statement of the function body itself (it is conditional): a macro can be known to #ifdef and never be replaced, or the reverse" % fname)
        else:
            last = max([i_ins] + i_push)
            for st in top[:last]:
                for x in walk(st):
                    if x.get("k") == "return":
                        res.fail(key, facts.where(fn, x), "%s can return before the macro is in all its tables: it is then known to #ifdef / #undef but its name is never replaced in the text (`#define EMPTY` followed by `EMPTY char i;`)" % fname)
        # defs (the BTreeMap used by get_macro/#ifdef) updated too
        key = "T-CPP-PARALLEL:%s:defs" % fname
        res.inst(key)
        if not any(n.get("k") == "mcall" and n["method"] == "insert" and expr_text(n["recv"]) == "self.defs" for n in walk_inl(facts, fn)):
            res.fail(key, facts.where(fn), "%s does not record the macro in `defs` (used by #ifdef/#ifndef and redefinition checks)" % fname)
    fn = facts.fn("undefine", "Context")
    removes = {}
    for n in walk_inl(facts, fn):
        if n.get("k") == "mcall" and n["method"] == "remove":
            rt = expr_text(n["recv"])
            m = re.match(r"^self\.(\w+)\[(\w+)\]$", rt)
            if m:
                removes[m.group(1)] = (m.group(2), expr_text(n["args"][0]))
            elif rt == "self.defs":
                removes["defs"] = ("-", expr_text(n["args"][0]))
    idx = {v for k, v in removes.items() if k != "defs"}
    for t in tables:
        key = "T-CPP-PARALLEL:undefine:%s" % t
        res.inst(key, True, {"remove": removes.get(t)})
        if t not in removes:
            res.fail(key, facts.where(fn), "undefine does not remove the entry from %s" % t)
    key = "T-CPP-PARALLEL:undefine:same-index"
    res.inst(key, True, {"indices": sorted(idx)})
    if len(idx) != 1:
        res.fail(key, facts.where(fn), "undefine removes from the parallel tables with different chunk/index expressions: %s" % sorted(idx))
    # where the (chunk, slot) pair comes from: counted by the search over the tables themselves (counters reset / stepped by one,
    # or enumerate()/position() over the chunks and over one chunk), never computed from a position in the concatenation of the
    # chunks - chunks are not all full once an entry has been removed
    key = "T-CPP-PARALLEL:undefine:index-origin"
    names = set()
    for v in idx:
        names |= {x for x in v if re.match(r"^\w+$", x)}
    origins = []
    for n in walk_inl(facts, fn):
        tgt = None
        rhs = None
        if n.get("k") == "let" and n.get("init") is not None:
            pn = [b for b in re.findall(r"\b\w+\b", pat_text(n["pat"])) if b in names]
            if pn:
                tgt, rhs = pn, n["init"]
        elif n.get("k") == "assign" and expr_text(n["l"]) in names:
            tgt, rhs = [expr_text(n["l"])], n["r"]
        elif n.get("k") == "letcond":
            pn = [b for b in re.findall(r"\b\w+\b", pat_text(n["pat"])) if b in names]
            if pn:
                tgt, rhs = pn, n["e"]
        if tgt:
            origins.append((tgt, rhs, n))
    res.inst(key, True, {"indices": sorted(names), "definitions": [expr_text(r)[:50] for _, r, _ in origins]})
    for tgt, rhs, n in origins:
        rt = expr_text(rhs).replace(" ", "")
        arith = [x for x in walk(rhs) if x.get("k") == "binary" and x["op"] in ("/", "%", "*", "-", ">>", "<<", "&")]
        flat = [x for x in walk(rhs) if x.get("k") == "mcall" and x["method"] in ("flatten", "flat_map", "concat", "sum")]
        plus = [x for x in walk(rhs) if x.get("k") == "binary" and x["op"] == "+" and not (expr_text(x["r"]).strip() == "1" or expr_text(x["l"]).strip() == "1")]
        if arith or flat or plus:
            res.fail(key, facts.where(fn, n), "undefine computes the index `%s` as `%s`: a position in the concatenation of the chunks is not (chunk, slot) once a chunk has lost an entry, so another macro's pattern is removed and the macro meant keeps being expanded" % ("/".join(tgt), rt[:60]))
    key = "T-CPP-PARALLEL:undefine:defs"
    res.inst(key)
    if "defs" not in removes:
        res.fail(key, facts.where(fn), "undefine does not remove the macro from `defs`")
    key = "T-CPP-PARALLEL:undefine:regex_set-rebuild"
    res.inst(key)
    if idx:
        chunk = next(iter(idx))[0]
        ok = any(n.get("k") == "assign" and expr_text(n["l"]) == "self.regex_sets[%s]" % chunk and ("RegexSet::new(self.defs_ex_ex[%s])" % chunk) in expr_text(n["r"]) for n in walk_inl(facts, fn))
        if not ok:
            res.fail(key, facts.where(fn), "undefine does not rebuild the RegexSet of the chunk it edited")
    # replace_all pairs set i with regexes[i]
    fn = facts.fn("replace_all", "Context")
    key = "T-CPP-PARALLEL:replace_all:pairing"
    res.inst(key)
    t = expr_text(fn["body"])
    if "self.regex_sets.iter().enumerate()" not in t or "self.regexes[i][idx]" not in t:
        res.fail(key, facts.where(fn), "replace_all does not pair chunk i of regex_sets with chunk i of regexes")


@rule("T-CPP-D", floor=2,
      text="-D NAME[=VALUE] options are turned into Context::define(NAME, VALUE or \"1\") before preprocessing starts, i.e. the same entry point an object-like #define uses")
def t_cpp_d(facts, res, tier):
    fn = facts.fn("compile", "")
    key = "T-CPP-D:loop"
    found = None
    for n in walk(fn["body"]):
        if n.get("k") == "for" and "args.defines" in expr_text(n["iter"]):
            found = n
    res.inst(key)
    if not found:
        res.fail(key, facts.where(fn), "loop over args.defines not found")
        return
    t = expr_text(found["body"])
    calls = [c for c in walk(found["body"]) if c.get("k") == "mcall" and c["method"] == "define" and expr_text(c["recv"]) == "context"]
    key = "T-CPP-D:define-call"
    res.inst(key, True, {"body": t[:200]})
    if len(calls) != 1:
        res.fail(key, facts.where(fn, found), "each -D option must reach Context::define exactly once")
    first_eq = False
    for c in walk(found["body"]):
        if c.get("k") == "mcall" and c.get("args"):
            at = [expr_text(a).replace('"', "'").replace(" ", "") for a in c["args"]]
            if c["method"] == "splitn" and at == ["2", "'='"]:
                first_eq = True
            if c["method"] == "split_once" and at == ["'='"]:
                first_eq = True
    if not first_eq:
        res.fail(key, facts.where(fn, found), "-D NAME=VALUE is not split at the first `=` only (splitn(2, '=') / split_once('=')): a value holding `=` itself (`-DSAME=0==0`) is cut")
    if 'unwrap_or("1")' not in t:
        res.fail(key, facts.where(fn, found), "-D NAME without a value does not default to 1")
    # object-like #define uses the same define()
    pfn = facts.fn("process", "")
    key = "T-CPP-D:object-like-define"
    res.inst(key)
    if not any(c.get("k") == "mcall" and c["method"] == "define" and expr_text(c["recv"]) == "context" for c in walk(pfn["body"])):
        res.fail(key, facts.where(pfn), "#define of an object-like macro does not go through Context::define")
    # ordering: the -D loop precedes cpp::process
    stmts = fn["body"]["stmts"]
    order = [i for i, s in enumerate(stmts) if s is found or found in list(walk(s))]
    proc = [i for i, s in enumerate(stmts) if "cpp::process(" in expr_text(s)]
    key = "T-CPP-D:before-process"
    res.inst(key)
    if not order or not proc or order[0] > proc[0]:
        res.fail(key, facts.where(fn), "-D definitions are not installed before preprocessing starts")


# ----------------------------------------------------------------------------- C06


@rule("T-LINEMAP", floor=4,
      text="in process(), every write of a source or marker line to the output is paired with exactly one push to the line map on the same path (the completion newline belongs to the preceding write), the pushed tuple is (current file, current line counter, includer), and mapped lines of an included file are appended in place")
def t_linemap(facts, res, tier):
    fn, blk, paths, sv = process_paths(facts)
    n = 0
    for p in paths:
        evs = [e for e in p["events"] if e["kind"] == "effect" and e["what"] in ("output.write_all", "output.write", "lines.push", "lines.append", "include-recursion")]
        if not evs:
            continue
        writes = []
        pushes = 0
        seq = []
        for e in evs:
            if e["what"].startswith("output."):
                a = e["args"][0] if e.get("args") else None
                txt = expr_text(e["node"]["args"][0]) if e["node"].get("args") else ""
                is_newline_completion = txt in ('b"\\n"', '"\\n".as_bytes()') or (isinstance(a, Const) and a.v == "\n")
                if not is_newline_completion:
                    # a constant/format template may hold several lines: one map entry is needed per line
                    nl = 1
                    if isinstance(a, Const) and isinstance(a.v, str):
                        nl = max(1, a.v.count("\n"))
                    elif isinstance(a, Fmt):
                        nl = max(1, a.template.count("\n"))
                    for _ in range(nl):
                        writes.append(e)
                    seq.append("W" * nl)
            elif e["what"] == "lines.push":
                pushes += 1
                seq.append("P")
                t = expr_text(e["node"]["args"][0])
                key = "T-LINEMAP:tuple"
                if not re.match(r"^\(filename_rc\.clone\(\),line,included_in_rc\.clone\(\)\)$", t):
                    res.fail(key, facts.where(fn, e["node"]), "line-map entry is `%s`, expected (current file, current line, includer)" % t)
            elif e["what"] == "lines.append":
                seq.append("A")
            elif e["what"] == "include-recursion":
                seq.append("R")
        key = "T-LINEMAP:%s:%s" % (p["directive"], "".join(seq))
        n += 1
        res.inst(key, True, {"directive": p["directive"], "sequence": "".join(seq)})
        if len(writes) != pushes:
            res.fail(key, facts.where(fn, (writes or evs)[0]["node"]), "on a %s path %d lines are written but %d map entries are pushed" % (p["directive"], len(writes), pushes))
        # each W must be adjacent to its P (no interleaving W W P P beyond pairs)
        s = "".join(c for c in "".join(seq) if c in "WP")
        if s.replace("PW", "").replace("WP", "") != "":
            res.fail(key, facts.where(fn, evs[0]["node"]), "writes and map pushes are not pairwise adjacent: %s" % s)
        if "R" in seq and seq[seq.index("R") + 1: seq.index("R") + 2] != ["A"]:
            res.fail(key, facts.where(fn, evs[0]["node"]), "mapped lines of the included file are not appended right after the recursive call")
    res.inst("T-LINEMAP:tuple")
    # the line counter: incremented once per physical line read (including spliced continuation lines)
    pfn = fn
    key = "T-LINEMAP:counter"
    incs = [a for a in walk(pfn["body"]) if a.get("k") == "assignop" and a["op"] == "+" and expr_text(a["l"]) == "line" and expr_text(a["r"]) == "1"]
    reads = [c for c in walk(pfn["body"]) if c.get("k") == "mcall" and c["method"] == "read_line"]
    res.inst(key, True, {"increments": len(incs), "read_line_calls": len(reads)})
    if len(incs) != len(reads) or len(reads) < 2:
        res.fail(key, facts.where(pfn), "the line counter is incremented %d times for %d read_line calls (each physical line, spliced or not, must advance it once)" % (len(incs), len(reads)))


@rule("T-ERR-SOURCE", floor=10,
      text="every Error::Syntax / Error::Compiler constructed in cpp.rs takes its line from the running line counter and its file/includer from the current file; everywhere else such values are built only in syntax_error, compiler_error, the parse-error arm of compile() and the Utf8 conversion")
def t_err_source(facts, res, tier):
    n = 0
    for fn in facts.fns:
        rel = facts.rel(fn["file"])
        for lit in walk(fn["body"]):
            if lit.get("k") != "struct" or len(lit["segs"]) < 2 or lit["segs"][-2] != "Error" or lit["segs"][-1] not in ("Syntax", "Compiler"):
                continue
            if any("e" not in f for f in lit["fields"]):
                continue  # a pattern, not a constructor
            n += 1
            fields = {f["name"]: expr_text(f["e"]) for f in lit["fields"]}
            if rel.endswith("cpp.rs"):
                key = "T-ERR-SOURCE:cpp:%s:%s" % (fn["name"], fields.get("msg", "")[:40])
                res.inst(key, True, fields)
                if fields.get("line") != "line":
                    res.fail(key, facts.where(fn, lit), "error built in %s takes its line from `%s`, not from the line counter" % (fn["name"], fields.get("line")))
                if fields.get("filename") not in ("filename", "filename.clone()"):
                    res.fail(key, facts.where(fn, lit), "error built in %s takes its file name from `%s`" % (fn["name"], fields.get("filename")))
                if fields.get("included_in") not in ("included_in", "included_in.clone()"):
                    res.fail(key, facts.where(fn, lit), "error built in %s takes its includer from `%s`" % (fn["name"], fields.get("included_in")))
            else:
                key = "T-ERR-SOURCE:%s:%s" % (rel, fn["name"])
                res.inst(key, True, fields)
                allowed = fn["name"] in ("syntax_error", "compiler_error", "compile") or (fn["name"] == "from" and "Utf8Error" in fn["qual"])
                if not allowed:
                    res.fail(key, facts.where(fn, lit), "%s constructs an Error::%s directly instead of going through syntax_error/compiler_error (which translate positions to source lines)" % (fn["name"], lit["segs"][-1]))
    # in eval_*: filename/included_in come from the context's current file
    for fname in ("eval_term", "evaluate"):
        fn = facts.fn(fname, "Context")
        key = "T-ERR-SOURCE:cpp:%s:context-file" % fname
        res.inst(key)
        t = expr_text(fn["body"])
        if "self.current_filename.clone()" not in t or "self.includes_stack.last().cloned()" not in t:
            res.fail(key, facts.where(fn), "%s does not take file/includer from the context's current file" % fname)


@rule("T-LOC-SIBLINGS", floor=3,
      text="syntax_error, compiler_error and warning translate an offset to a source line by the same computation (identical trees up to the value they build), and compile()'s parse-error arm clamps the pest line to the map before indexing")
def t_loc_siblings(facts, res, tier):
    fns = [facts.fn(n, "CompilerState") for n in ("syntax_error", "compiler_error", "warning")]
    def prefix(fn):
        out = []
        for s in fn["body"]["stmts"]:
            if s.get("k") in ("let", "for"):
                out.append(expr_text(s))
            else:
                break
        return out
    base = prefix(fns[0])
    for fn in fns:
        key = "T-LOC-SIBLINGS:%s" % fn["name"]
        p = prefix(fn)
        res.inst(key, True, {"statements": len(p)})
        # compare the offset->line loop and the includer lookup
        loops_a = [x for x in base if x.startswith("for ") or x.startswith("<for>") or "chars()" in x]
        if p[:3] != base[:3]:
            res.fail(key, facts.where(fn), "%s computes the line differently from %s" % (fn["name"], fns[0]["name"]))
        idx = [n for n in walk(fn["body"]) if n.get("k") == "index" and "mapped_lines" in expr_text(n["base"])]
        keys = {expr_text(n["idx"]) for n in idx}
        if len(keys) != 1:
            res.fail(key, facts.where(fn), "%s indexes the line map with different expressions: %s" % (fn["name"], sorted(keys)))
    # field selection: filename from .0, line from .1, includer from .2
    for fn in fns:
        key = "T-LOC-SIBLINGS:%s:fields" % fn["name"]
        t = expr_text(fn["body"])
        res.inst(key)
        ln = [n for n in walk(fn["body"]) if n.get("k") == "field" and n["base"].get("k") == "index" and "mapped_lines" in expr_text(n["base"])]
        used = {}
        for n in ln:
            used.setdefault(n["name"], 0)
            used[n["name"]] += 1
        if set(used) != {"0", "1", "2"}:
            res.fail(key, facts.where(fn), "%s does not read file (.0), line (.1) and includer (.2) from the map entry: %s" % (fn["name"], used))
        # which field feeds `line`
        from rules_opt import guards_walk
        lits = []
        guards_walk(fn["body"], [], lits, lambda n: n.get("k") == "struct" and n["segs"][-1] in ("Syntax", "Compiler"))
        for lit, guards in lits:
            if True:
                # the fallback built when the map is empty has no location to report
                if any(pol and g.replace(" ", "").endswith("mapped_lines.is_empty()") for g, pol in guards):
                    continue
                f = {x["name"]: expr_text(x["e"]) for x in lit["fields"]}
                if not f.get("line", "").endswith("].1") or not f.get("filename", "").endswith("].0.to_string()"):
                    res.fail(key, facts.where(fn, lit), "%s builds its error from the wrong map fields: line=%s filename=%s" % (fn["name"], f.get("line"), f.get("filename")))


@rule("T-CPP-SCAN-SIBLINGS", floor=2,
      text="the two branches of process() that keep the text before a comment (the string-aware branch and the #include/assembler branch) treat it identically - append it, suppress the line only when everything kept so far is empty, then enter the block comment or stop - and the suppression test looks at the whole accumulated line, not at the fragment just scanned")
def t_cpp_scan_siblings(facts, res, tier):
    fn = facts.fn("process", "")
    sibs = []
    for b in walk(fn["body"]):
        if b.get("k") != "block" or not b["stmts"]:
            continue
        last = b["stmts"][-1]
        if last.get("k") == "match" and expr_text(last["e"]).endswith(".next()") and "in_multiline_comments=true" in expr_text(last):
            sibs.append((b, last, [expr_text(x) for x in b["stmts"]]))
    res.inst("T-CPP-SCAN-SIBLINGS:count", True, {"branches": len(sibs)})
    if len(sibs) < 2:
        raise AnchorMissing("process(): the sibling 'keep text before comment, then enter the block comment' branches were not found (%d)" % len(sibs))
    base = sibs[-1][2]
    for i, (b, last, txt) in enumerate(sibs):
        key = "T-CPP-SCAN-SIBLINGS:branch%d" % i
        res.inst(key, True, {"statements": txt})
        if txt != base:
            res.fail(key, facts.where(fn, b["stmts"][0]), "the branches that keep the text before a comment differ: `%s` vs `%s`" % ("; ".join(txt[:-1])[:160], "; ".join(base[:-1])[:160]))
        pushes = [x for x in walk(b) if x.get("k") == "mcall" and x["method"] == "push_str" and x["recv"].get("k") == "path"]
        if not pushes:
            res.fail(key + ":append", facts.where(fn, b["stmts"][0]), "the text before the comment is not appended to the line buffer")
            continue
        buf = expr_text(pushes[0]["recv"])
        for x in walk(b):
            if x.get("k") == "if" and "is_empty()" in expr_text(x["cond"]) and "insert_it=false" in expr_text(x).replace(" ", ""):
                if expr_text(x["cond"]) != "%s.is_empty()" % buf:
                    res.fail(key + ":whole-line", facts.where(fn, x), "a line is suppressed when `%s`, but what decides whether the line carries text is the accumulated buffer `%s`: code before a comment on the same line would be dropped" % (expr_text(x["cond"]), buf))


def follow_helpers(facts, fn, depth=2):
    """fn's nodes plus the bodies of same-impl helper methods it calls on self (any arguments)."""
    seen = {id(fn)}
    out = [(fn, n) for n in walk(fn["body"])]
    frontier = [fn]
    for _ in range(depth):
        nxt = []
        for f in frontier:
            for n in walk(f["body"]):
                if n.get("k") == "mcall" and n["recv"].get("k") == "path" and n["recv"]["segs"] == ["self"]:
                    for h in facts.fns_named(n["method"]):
                        if h["qual"] == fn["qual"] and id(h) not in seen:
                            seen.add(id(h))
                            nxt.append(h)
                            out += [(h, m) for m in walk(h["body"])]
        frontier = nxt
    return out


@rule("T-OFFSET-LINE", floor=3,
      text="syntax_error, compiler_error and warning turn a character offset into the index of the preprocessed line that contains it by counting the newline characters among the first `offset` characters (a loop that stops at the offset before counting, or an equivalent count over the prefix); forms that are off by one at a line start or at offset 0 (count-then-test loops, `lines().count() - 1`) are reported")
def t_offset_line(facts, res, tier):
    for fname in ("syntax_error", "compiler_error", "warning"):
        fn = facts.fn(fname, "CompilerState")
        key = "T-OFFSET-LINE:%s" % fname
        nodes = follow_helpers(facts, fn)
        verdict = None
        why = ""
        for owner, n in nodes:
            if n.get("k") == "for" and "chars()" in expr_text(n["iter"]):
                st = n["body"]["stmts"]
                counts = [x for x in walk(n["body"]) if x.get("k") == "if" and "'\\n'" in expr_text(x["cond"]).replace('"', "'") and "+=1" in expr_text(x["then"]).replace(" ", "")]
                if not counts:
                    continue
                first = st[0] if st else {}
                stop_first = first.get("k") == "if" and "break" in expr_text(first["then"]) and "==loc" in expr_text(first["cond"]).replace(" ", "").replace("(", "").replace(")", "")
                # the offset is a pest *byte* offset: a loop over chars() must advance its counter by the
                # encoded length of each character (or iterate char_indices()/bytes())
                body_t = expr_text(n["body"]).replace(" ", "")
                by_bytes = "len_utf8()" in body_t or "char_indices()" in expr_text(n["iter"]) or "bytes()" in expr_text(n["iter"])
                if stop_first and not by_bytes:
                    verdict, why = False, "the loop counts characters (`+= 1` per char) but compares the count with a byte offset: every non-ASCII character before the place lets the scan run further and newlines in the overshoot are counted (the reported line is too large)"
                elif stop_first:
                    verdict = True
                else:
                    verdict, why = False, "the loop counts a character before testing whether the offset was reached: offset 0 is never met and the whole text is scanned"
            t = expr_text(n).replace(" ", "") if n.get("k") == "mcall" and n["method"] == "count" else ""
            if t:
                if re.search(r"\[\.\.\w+\]\.(matches\('\\n'\)|chars\(\)\.filter\(.*'\\n'.*\)|bytes\(\)\.filter\(.*\))\.count\(\)$", t.replace('"', "'")) or re.search(r"\.chars\(\)\.take\(\w+\)\.filter\(.*'\\n'.*\)\.count\(\)$", t.replace('"', "'")):
                    verdict = True
                elif ".lines().count()" in t:
                    verdict, why = False, "`lines().count() - 1` is one too small when the offset is the first character of a line (the empty last piece is not a line): such errors are attributed to the previous line"
        res.inst(key, True, {"function": fname, "recognised": verdict})
        if verdict is None:
            res.fail(key, facts.where(fn), "%s: the offset-to-line translation is not one of the forms the rule can show correct (newlines among the first `offset` characters)" % fname)
        elif verdict is False:
            res.fail(key, facts.where(fn), "%s: %s" % (fname, why))
