"""Type-resolved facts from engines/mirfacts (rustc_private driver run under cargo +nightly check)."""
import json
import os
import shutil
import subprocess
import tempfile

from astlib import VERIF, REPO, CACHE, tree_hash, FactsError, CONFIGS

DRIVER = os.path.join(VERIF, "engines", "mirfacts", "target", "release", "mirfacts")
_loaded = {}


def ensure_driver():
    if not os.path.exists(DRIVER):
        r = subprocess.run(["cargo", "+nightly", "build", "--release", "--offline"], cwd=os.path.join(VERIF, "engines", "mirfacts"),
                           capture_output=True, text=True, env=dict(os.environ, CARGO_NET_OFFLINE="true"))
        if r.returncode != 0 or not os.path.exists(DRIVER):
            raise FactsError("cannot build mirfacts: " + r.stderr[-2000:])


class MirFacts:
    def __init__(self, doc, config, repo):
        self.doc = doc
        self.config = config
        self.repo = repo
        self.fns = doc["fns"]

    def short(self, path):
        """AST-level function name of a MIR def path (closures belong to their parent)."""
        segs = [s for s in path.split("::") if not s.startswith("{closure")]
        return segs[-1] if segs else path


def load_mir(config="default", repo=None):
    repo = repo or os.environ.get("VERIF_REPO", REPO)
    key = (config, repo)
    if key in _loaded:
        return _loaded[key]
    ensure_driver()
    os.makedirs(CACHE, exist_ok=True)
    th = tree_hash(repo)
    st = os.stat(DRIVER)
    out = os.path.join(CACHE, "mir-%s-%s-%d.json" % (th, config, st.st_size))
    if not os.path.exists(out):
        tmp = tempfile.mkdtemp(prefix="mirfacts.")
        try:
            sysroot = subprocess.run(["rustc", "+nightly", "--print", "sysroot"], capture_output=True, text=True).stdout.strip()
            env = dict(os.environ)
            env.update({
                "LD_LIBRARY_PATH": os.path.join(sysroot, "lib") + (":" + env["LD_LIBRARY_PATH"] if env.get("LD_LIBRARY_PATH") else ""),
                "RUSTFLAGS": "-Zmir-opt-level=0 -Awarnings",
                "RUSTC_WORKSPACE_WRAPPER": DRIVER,
                "MIRFACTS_OUT": os.path.join(tmp, "facts.json"),
                "CARGO_TARGET_DIR": os.path.join(tmp, "target"),
                "CARGO_NET_OFFLINE": "true",
            })
            cmd = ["cargo", "+nightly", "check", "--offline", "--lib"]
            if CONFIGS[config] != "-":
                cmd += ["--features", CONFIGS[config]]
            r = subprocess.run(cmd, cwd=repo, capture_output=True, text=True, env=env)
            fpath = os.path.join(tmp, "facts.json")
            if r.returncode != 0 or not os.path.exists(fpath):
                raise FactsError("mirfacts run failed (the tree must compile): " + r.stderr[-1500:])
            shutil.move(fpath, out)
        finally:
            shutil.rmtree(tmp, ignore_errors=True)
    with open(out) as fh:
        doc = json.load(fh)
    if doc.get("crate") != "cc6502":
        raise FactsError("mirfacts analysed crate %r, expected cc6502" % doc.get("crate"))
    mf = MirFacts(doc, config, repo)
    _loaded[key] = mf
    return mf
