"""Optimizer rules (C02, C18), inline-copy rules (C14, C13), csleep / protected regions (C18)."""
import re

from astlib import AnchorMissing, expr_text, pat_text, walk, children
from core import rule
from genmodel import (ISA, MN, BRANCHES, gen_fns, fn_paths, domain_of, is_error_exit, GEN_QUAL, mod_summaries)
from walker import Const, EnumV, Sym, Fmt, Tup, Unknown, StructV, BinOp
import rules_asm

EXPLICIT_STMT_GENERATORS = ("generate_load_store_statement", "generate_strobe_statement", "generate_csleep_statement")


def explicit_access_mnemonics(facts):
    """Mnemonics the explicit-access statements can emit, and those that can be emitted protected anywhere."""
    prot = set()
    explicit = set()
    for s in rules_asm.asm_sites(facts):
        p = s["protected"]
        may_be_protected = not (isinstance(p, Const) and p.v is False)
        if isinstance(p, Sym):
            # unassigned in this function: false unless a caller set it; callers never call with protected set
            may_be_protected = False
        if may_be_protected and s["mn"]:
            prot |= s["mn"]
        if s["fn"]["name"] in EXPLICIT_STMT_GENERATORS and s["mn"]:
            explicit |= s["mn"]
    return prot, explicit


# ------------------------------------------------------------------ optimize(): structure


def opt_structure(facts):
    fn = facts.fn("optimize", "AssemblyCode")
    # instruction binders: if let Some(AsmLine::Instruction(V)) = &first|&second
    binders = {}
    for n in walk(fn["body"]):
        if n.get("k") == "if" and n["cond"].get("k") == "letcond":
            pt = pat_text(n["cond"]["pat"])
            m = re.match(r"^Some\(AsmLine::Instruction\((\w+)\)\)$", pt)
            if m:
                src = expr_text(n["cond"]["e"])
                binders.setdefault(m.group(1), set()).add(src)
    # the kill table: the match on <x>.mnemonic with the most arms
    best = None
    for n in walk(fn["body"]):
        if n.get("k") == "match" and expr_text(n["e"]).endswith(".mnemonic") and (best is None or len(n["arms"]) > len(best["arms"])):
            best = n
    if best is None or len(best["arms"]) < 8:
        raise AnchorMissing("optimize(): per-mnemonic knowledge-update match not found")
    return fn, binders, best


def guards_walk(node, guards, out, want):
    """Collect (node, guards) for nodes satisfying want(node); guards = list of (cond_text, polarity)."""
    k = node.get("k")
    if want(node):
        out.append((node, list(guards)))
    if k == "if":
        ct = expr_text(node["cond"])
        guards_walk(node["cond"], guards, out, want)
        guards_walk(node["then"], guards + [(ct, True)], out, want)
        if "else" in node:
            guards_walk(node["else"], guards + [(ct, False)], out, want)
        return
    if k == "match":
        et = expr_text(node["e"])
        guards_walk(node["e"], guards, out, want)
        for arm in node["arms"]:
            guards_walk(arm["body"], guards + [("%s is %s" % (et, pat_text(arm["pat"])), True)], out, want)
        return
    for c in children(node):
        guards_walk(c, guards, out, want)


def conjuncts(text):
    """Split a canonical condition text on top-level &&."""
    t = text
    while t.startswith("(") and t.endswith(")") and balanced(t[1:-1]):
        t = t[1:-1]
    parts, depth, cur = [], 0, ""
    i = 0
    while i < len(t):
        ch = t[i]
        if ch in "([{":
            depth += 1
        elif ch in ")]}":
            depth -= 1
        if depth == 0 and t[i:i + 2] == "&&":
            parts.append(cur)
            cur = ""
            i += 2
            continue
        cur += ch
        i += 1
    parts.append(cur)
    out = []
    for p in parts:
        p = p.strip()
        if "&&" in p and p.startswith("(") and p.endswith(")") and balanced(p[1:-1]):
            out += conjuncts(p)
        else:
            out.append(p)
    return out


def balanced(s):
    d = 0
    for ch in s:
        if ch in "([{":
            d += 1
        elif ch in ")]}":
            d -= 1
            if d < 0:
                return False
    return d == 0


@rule("T-OPT-PROT", floor=15,
      text="every peephole rule of optimize() that removes an instruction tests `protected` of each instruction it removes; the only exemption is an instruction whose mnemonic is pinned by the rule to one that no emission site can emit protected and that no load/store/strobe/csleep statement emits")
def t_opt_prot(facts, res, tier):
    fn, binders, kill = opt_structure(facts)
    prot_set, explicit = explicit_access_mnemonics(facts)
    res.note("mnemonics that can be emitted protected: %s; emitted by explicit-access statements: %s" % (sorted(prot_set), sorted(explicit)))
    which = {}
    for v, srcs in binders.items():
        if len(srcs) == 1:
            which[v] = next(iter(srcs)).replace("&", "")
    def want(n):
        if n.get("k") == "assign":
            lt = expr_text(n["l"])
            if lt.startswith("remove_"):
                return True
            if n["l"].get("k") == "unary" and expr_text(n["r"]) == "AsmLine::Dummy":
                return True
        return False
    found = []
    guards_walk(fn["body"], [], found, want)
    n = 0
    for node, guards in found:
        lt = expr_text(node["l"])
        rt = expr_text(node["r"])
        if lt.startswith("remove_") and rt == "false":
            continue
        flat = []
        which = {}
        for g, pol in guards:
            if pol:
                flat += conjuncts(g)
            m = re.match(r"^let Some\(AsmLine::Instruction\((\w+)\)\)=(.+)$", g)
            if m and pol:
                which[m.group(1)] = m.group(2)
        if lt.startswith("remove_"):
            removed = {"remove_first": ["first"], "remove_second": ["second"], "remove_both": ["first", "second"]}.get(lt)
            if removed is None:
                continue
        else:
            # direct write *first.unwrap() = Dummy : only count those outside the final dispatch on remove_* flags
            if any(g.startswith("remove_") or g.startswith("!remove_") for g, _ in guards):
                continue
            removed = ["first" if "first" in lt else "second"]
        n += 1
        # human-readable rule identity: mnemonics pinned for first/second
        pinned = {}
        for c in flat:
            m = re.match(r"^\(?(\w+)\.mnemonic==AsmMnemonic::(\w+)\)?$", c)
            if m and m.group(1) in which:
                pinned.setdefault(which[m.group(1)], set()).add(m.group(2))
            m = re.match(r"^(\w+)\.mnemonic is (.+)$", c)
            if m and m.group(1) in which:
                pinned.setdefault(which[m.group(1)], set()).update(x.split("::")[-1] for x in m.group(2).split("|"))
            for m in re.finditer(r"(\w+)\.mnemonic==AsmMnemonic::(\w+)", c):
                if "||" in c and m.group(1) in which:
                    pinned.setdefault(which[m.group(1)], set()).add(m.group(2))
        ident = "%s/%s" % ("|".join(sorted(pinned.get("first", {"*"}))), "|".join(sorted(pinned.get("second", {"*"}))))
        key = "T-OPT-PROT:%s:%s" % (lt if lt.startswith("remove_") else "direct", ident)
        checked = set()
        for c in flat:
            m = re.match(r"^!(\w+)\.protected$", c)
            if m and m.group(1) in which:
                checked.add(which[m.group(1)])
        if rt.startswith("!") and rt.endswith(".protected"):
            v = rt[1:-len(".protected")]
            if v in which:
                checked.add(which[v])
        res.inst(key, True, {"removes": removed, "protected_checked": sorted(checked), "guards": flat[:8]})
        for r in removed:
            if r in checked:
                continue
            pins = pinned.get(r)
            if pins and not (pins & prot_set) and not (pins & explicit):
                continue  # exempt: can never be a protected / explicit-access instruction
            res.fail(key, facts.where(fn, node), "peephole rule (%s) removes the %s instruction without testing its `protected` flag" % (ident, r), {"guards": flat})
    res.note("%d removal sites in optimize()" % n)


def arm_summary(arm_body, regvars):
    """For one arm of the knowledge-update match: {var: set of conditions under which it is (re)assigned}
    condition is 'always', 'idx:,X', 'idx:,Y', 'same_operand', 'non_immediate', or 'other:<text>'."""
    out = {}
    found = []
    guards_walk(arm_body, [], found, lambda n: n.get("k") == "assign" and expr_text(n["l"]) in regvars)
    for node, guards in found:
        var = expr_text(node["l"])
        conds = []
        for g, pol in guards:
            if re.match(r"^let Some\(\w+\)=\w+$", g):
                continue  # `if let Some(v) = &reg` : knowledge exists
            if pol and re.match(r"^!remove_(second|both)$", g.replace(" ", "").replace("(", "").replace(")", "")):
                continue  # only while the instruction stays: one that is deleted has no effect to record
            conds.append((g, pol))
        if not conds:
            c = "always"
        elif len(conds) == 1:
            g, pol = conds[0]
            if pol and re.search(r'\.ends_with\(",X"\)', g):
                c = "idx:,X"
            elif pol and re.search(r'\.ends_with\(",Y"\)', g):
                c = "idx:,Y"
            elif pol and re.search(r"\.eq\(inst\.dasm_operand\)|==inst\.dasm_operand", g):
                c = "same_operand"
            elif pol and re.search(r'^!\w+\.starts_with\("#"\)$', g):
                c = "non_immediate"
            else:
                c = "other:" + g
        else:
            c = "other:" + "&".join(g for g, _ in conds)
        out.setdefault(var, set()).add(c)
    return out


@rule("T-OPT-KILL", floor=40,
      text="for every mnemonic, the knowledge-update step of optimize() invalidates at least what the instruction destroys (ref/6502.json): writers of A/X/Y reassign that register's known value unconditionally; writers of X (Y) drop known values whose operand text is indexed by ,X (,Y); memory writers (stores, INC/DEC, memory forms of shifts/rotates) drop every known value that mirrors memory (anything but an immediate) in all three registers - two operand texts can name one cell; JSR/JMP drop everything; instructions whose N/Z result is not the value of A update or clear `flags`")
def t_opt_kill(facts, res, tier):
    fn, binders, kill = opt_structure(facts)
    # map register -> knowledge variable from the load arms
    arms = {}
    default = None
    for arm in kill["arms"]:
        pats = arm["pat"]["alts"] if arm["pat"].get("k") == "or" else [arm["pat"]]
        for p in pats:
            if p.get("k") == "path":
                arms[p["segs"][-1]] = arm
            elif p.get("k") == "wild":
                default = arm
    regvar = {}
    for mn, reg in (("LDA", "A"), ("LDX", "X"), ("LDY", "Y")):
        if mn not in arms:
            raise AnchorMissing("optimize(): no arm for %s in the knowledge-update match" % mn)
        for n in walk(arms[mn]["body"]):
            if n.get("k") == "assign" and expr_text(n["r"]).startswith("Some(inst.dasm_operand"):
                regvar[reg] = expr_text(n["l"])
    if set(regvar) != {"A", "X", "Y"}:
        raise AnchorMissing("optimize(): cannot identify the A/X/Y knowledge variables")
    flagsvar = None
    for n in walk(arms["LDA"]["body"]):
        if n.get("k") == "assign" and expr_text(n["r"]).startswith("FlagsState::"):
            flagsvar = expr_text(n["l"])
    if flagsvar is None:
        raise AnchorMissing("optimize(): flags knowledge variable not found")
    allvars = set(regvar.values()) | {flagsvar}
    other = {"A": ("X", "Y"), "X": ("A", "Y"), "Y": ("A", "X")}
    for mn in facts.enum_variants("AsmMnemonic"):
        d = MN[mn]
        arm = arms.get(mn, default)
        summ = arm_summary(arm["body"], allvars) if arm is not None else {}
        where = facts.where(fn, arm["body"] if arm is not None else kill)
        def covers(var, need):
            cs = summ.get(var, set())
            if "always" in cs:
                return True
            if need == "same_operand":
                return "same_operand" in cs or "non_immediate" in cs
            return need in cs
        # register writes
        writes = [r for r in d["writes_reg"] if r in ("A", "X", "Y")]
        if d["kind"] == "shift":
            writes = ["A"]  # accumulator form
        for r in writes:
            key = "T-OPT-KILL:%s:writes-%s" % (mn, r)
            res.inst(key, True, {"mnemonic": mn, "summary": {k: sorted(v) for k, v in summ.items()}})
            if not covers(regvar[r], "always"):
                res.fail(key, where, "%s changes %s but the optimizer keeps its previous known value of %s (`%s` is not reassigned unconditionally)" % (mn, r, r, regvar[r]))
            # what the register is *then* believed to hold must not be computed knowledge: nothing (None), the
            # operand just loaded, or - for a transfer - what the source register is known to hold
            TRANSFER_SRC = {"TAX": "A", "TAY": "A", "TXA": "X", "TYA": "Y", "TSX": None, "PLA": None}
            if arm is not None:
                for n2 in walk(arm["body"]):
                    if n2.get("k") == "assign" and expr_text(n2["l"]) == regvar[r]:
                        rt = expr_text(n2["r"]).replace(" ", "")
                        allowed = rt == "None"
                        if d["kind"] == "load" and rt.startswith("Some(inst.dasm_operand"):
                            allowed = True
                        src = TRANSFER_SRC.get(mn)
                        if src and rt in (regvar[src] + ".clone()", regvar[src]):
                            allowed = True
                        if not allowed:
                            res.fail("T-OPT-KILL:%s:derived-%s" % (mn, r), facts.where(fn, n2),
                                     "after %s the optimizer believes %s holds `%s`: knowledge computed by the optimizer itself (e.g. a constant stepped by INX/DEX "
                                     "without 8-bit wrap-around) instead of nothing, the operand just loaded, or the source register's value" % (mn, r, rt[:60]))
            if r in ("X", "Y"):
                for o in other[r]:
                    key2 = "T-OPT-KILL:%s:index-%s-in-%s" % (mn, r, o)
                    res.inst(key2, True, None)
                    if not covers(regvar[o], "idx:,%s" % r):
                        res.fail(key2, where, "%s changes %s but a known value of %s whose operand is indexed by ,%s is kept" % (mn, r, o, r))
        # memory writes
        if d["writes_mem"]:
            for r in ("A", "X", "Y"):
                key = "T-OPT-KILL:%s:mem-%s" % (mn, r)
                res.inst(key, True, None)
                # two operand texts may name one cell (tab+1 / tab,X; the two ports of a split-port cell): every memory mirror goes
                if not covers(regvar[r], "non_immediate"):
                    res.fail(key, where, "%s writes memory but a known value of %s that mirrors memory is kept unless it has the same operand text: `tab+1` and `tab,X` may be the same cell, and the reload after `INC tab,X` is deleted" % (mn, r))
        if d["kind"] in ("jump", "call"):
            for r in ("A", "X", "Y"):
                key = "T-OPT-KILL:%s:all-%s" % (mn, r)
                res.inst(key, True, None)
                if not covers(regvar[r], "always"):
                    res.fail(key, where, "%s transfers control but the known value of %s is kept" % (mn, r))
        # flags: whatever writes N/Z (or calls code that may) leaves the optimiser's flag knowledge either cleared or naming
        # the register whose value the new N/Z describe - never what it said before
        if d["nz"] or d["kind"] in ("call",) or mn in ("PLP", "RTI"):
            key = "T-OPT-KILL:%s:flags" % mn
            res.inst(key, True, None)
            if not covers(flagsvar, "always"):
                res.fail(key, where, "%s sets N/Z but the optimizer's `%s` knowledge is left as it was: a later load of the register it names is then deleted although the flags no longer describe that register (`X = 0; csleep(7); X = 0; if (X)` branches on what PLA pulled)" % (mn, flagsvar))
            NZ_OF = {"LDA": "A", "TXA": "A", "TYA": "A", "PLA": "A", "ADC": "A", "SBC": "A", "AND": "A", "ORA": "A", "EOR": "A",
                     "LDX": "X", "TAX": "X", "INX": "X", "DEX": "X", "TSX": "X", "LDY": "Y", "TAY": "Y", "INY": "Y", "DEY": "Y"}
            if arm is not None:
                for n2 in walk(arm["body"]):
                    if n2.get("k") == "assign" and expr_text(n2["l"]) == flagsvar:
                        rt = expr_text(n2["r"]).replace(" ", "")
                        m3 = re.match(r"^FlagsState::(\w+)$", rt)
                        val = m3.group(1) if m3 else rt
                        if val != "Unknown" and val != NZ_OF.get(mn):
                            res.fail("T-OPT-KILL:%s:flags-value" % mn, facts.where(fn, n2), "after %s the optimizer believes the flags describe %s; they describe %s" % (mn, val, NZ_OF.get(mn, "neither A, X nor Y")))
    res.exhaustive = True


def _assigns_on_all_paths(node, var):
    """Does every path through this block / statement assign `var`?  (structural: a top-level assignment, or an if/else chain or match
    whose every branch does; loops and `if` without else do not count)"""
    if not isinstance(node, dict):
        return False
    k = node.get("k")
    if k == "block":
        return any(_assigns_on_all_paths(s0, var) for s0 in node.get("stmts") or [])
    if k == "assign":
        return expr_text(node["l"]).strip() == var
    if k == "if":
        if node.get("else") is None:
            return False
        return ((_assigns_on_all_paths(node["then"], var) or body_diverges(node["then"]))
                and (_assigns_on_all_paths(node["else"], var) or body_diverges(node["else"])))
    if k == "match":
        return all(_assigns_on_all_paths(a["body"], var) or body_diverges(a["body"]) for a in node["arms"])
    if k in ("try", "paren"):
        return _assigns_on_all_paths(node["e"], var)
    return False


def body_diverges(n):
    t = expr_text(n).replace(" ", "")
    return t.startswith("unreachable!") or t.startswith("{unreachable!") or t.startswith("return") or t.startswith("{return") or t.startswith("panic!")


@rule("T-OPT-BARRIER", floor=6,
      text="in optimize(), whenever the scan moves past a Label or an Inline (opaque assembler text) line, all register knowledge is reset before it is used again (in the arm that skips the line, or right after the skip loop); Comment and Dummy lines change nothing")
def t_opt_barrier(facts, res, tier):
    fn, binders, kill = opt_structure(facts)
    regs = ("accumulator", "x_register", "y_register")
    flagsvar = None
    for arm0 in kill["arms"]:
        if "LDA" in pat_text(arm0["pat"]):
            for n0 in walk(arm0["body"]):
                if n0.get("k") == "assign" and expr_text(n0["r"]).startswith("FlagsState::"):
                    flagsvar = expr_text(n0["l"])
    if flagsvar is None:
        raise AnchorMissing("optimize(): flags knowledge variable not found")
    # all skip loops: loop { match &first|&second { None => return, Some(Instruction) => break, <other arms> } }
    found = []
    def want(n):
        if n.get("k") != "loop":
            return False
        st = n["body"]["stmts"]
        return len(st) == 1 and st[0].get("k") == "match" and expr_text(st[0]["e"]) in ("first", "second")
    guards_walk(fn["body"], [], found, want)
    if len(found) < 3:
        raise AnchorMissing("optimize(): line-skipping loops not found")
    # parent blocks (to look at what follows a loop)
    parent = {}
    for b in walk(fn["body"]):
        if b.get("k") == "block":
            for i, s in enumerate(b["stmts"]):
                parent[id(s)] = (b, i)
    def reads_regs(n):
        for x in walk(n):
            if x.get("k") == "path" and len(x["segs"]) == 1 and x["segs"][0] in regs:
                return True
        return False
    def reset_after(loopnode):
        b, i = parent.get(id(loopnode), (None, None))
        if b is None:
            return False
        done = set()
        for s in b["stmts"][i + 1:]:
            if s.get("k") == "assign" and expr_text(s["l"]) in regs and expr_text(s["r"]) == "None":
                done.add(expr_text(s["l"]))
                if done == set(regs):
                    return True
                continue
            if s.get("k") == "assign" and not reads_regs(s["r"]) and expr_text(s["l"]) not in regs:
                continue
            if reads_regs(s):
                return False
        return False
    def nothing_known_before(loopnode):
        b, i = parent.get(id(loopnode), (None, None))
        if b is not fn["body"]:
            return False
        for s in b["stmts"][:i]:
            for x in walk(s):
                if x.get("k") == "assign" and expr_text(x["l"]) in regs:
                    return False
        return True
    roles_seen = set()
    for lp, guards in found:
        m = lp["body"]["stmts"][0]
        which = expr_text(m["e"])
        gtxt = " ".join(g for g, pol in guards if pol)
        if which == "second":
            role = "second-cursor"
        elif not guards:
            role = "start"
        elif "JMP" in gtxt and "Label" in gtxt:
            role = "after-jmp-to-next-label"
        elif "AsmLine::Label" in gtxt:
            role = "label-restart"
        elif "remove_both" in gtxt:
            role = "after-remove-both"
        else:
            role = "other:" + gtxt[:40]
        n = 2
        base = role
        while role in roles_seen:
            role = "%s#%d" % (base, n)
            n += 1
        roles_seen.add(role)
        arms = {}
        for a in m["arms"]:
            alts = a["pat"]["alts"] if a["pat"].get("k") == "or" else [a["pat"]]
            for alt in alts:
                arms[pat_text(alt)] = a
        handled = {}
        extra_arms = {}
        for pt, a in arms.items():
            mm = re.match(r"^Some\(AsmLine::(\w+)", pt)
            if mm:
                # an arm with a narrower pattern for the same kind of line (`Inline(_, 0)`) comes first and decides for the lines it matches
                if mm.group(1) in handled and handled[mm.group(1)] is not a:
                    extra_arms.setdefault(mm.group(1), []).append((pt, a))
                handled[mm.group(1)] = a
        default = arms.get("_")
        after = reset_after(lp)
        fresh = nothing_known_before(lp)
        # the line being stepped over follows an instruction the rule pinned to a mnemonic whose
        # knowledge-update arm already dropped every register (e.g. JMP): nothing is known here
        pinned = set()
        for g, pol in guards:
            if pol:
                for c in conjuncts(g):
                    mm = re.match(r"^\(?\w+\.mnemonic==AsmMnemonic::(\w+)\)?$", c)
                    if mm:
                        pinned.add(mm.group(1))
        if pinned:
            karms = {}
            kdefault = None
            for arm in kill["arms"]:
                pats = arm["pat"]["alts"] if arm["pat"].get("k") == "or" else [arm["pat"]]
                for p2 in pats:
                    if p2.get("k") == "path":
                        karms[p2["segs"][-1]] = arm
                    elif p2.get("k") == "wild":
                        kdefault = arm
            def clears_all(mn):
                arm = karms.get(mn, kdefault)
                if arm is None:
                    return False
                summ = arm_summary(arm["body"], set(regs))
                return all("always" in summ.get(r, set()) for r in regs)
            if all(clears_all(mn) for mn in pinned):
                fresh = True
        for variant in ("Label", "Inline"):
            for pt2, a2 in extra_arms.get(variant, []) + ([(p3, a3) for p3, a3 in arms.items() if re.match(r"^Some\(AsmLine::%s" % variant, p3) and a3 is not handled.get(variant)]):
                bt2 = expr_text(a2["body"])
                if not all(("%s=None" % v) in bt2 for v in regs) and not (after or fresh):
                    k2 = "T-OPT-BARRIER:%s:%s:%s" % (role, variant, pt2.replace(" ", "")[:30])
                    res.inst(k2, True, {"pattern": pt2})
                    res.fail(k2, facts.where(fn, a2["body"]), "optimize(): the arm `%s` lets `%s` move past some AsmLine::%s lines without resetting the known register contents: such a line can be a label other code jumps to (`asm(\"\\nagain\", 0)`)" % (pt2, which, variant))
        for variant in ("Label", "Inline"):
            a = handled.get(variant, default)
            key = "T-OPT-BARRIER:%s:%s" % (role, variant)
            body_t = expr_text(a["body"]) if a is not None else ""
            in_arm = all(("%s=None" % v) in body_t for v in regs)
            res.inst(key, True, {"cursor": which, "role": role, "variant": variant, "reset_in_arm": in_arm, "reset_after_loop": after, "nothing_known_yet": fresh})
            # the flag knowledge is register knowledge too: where the arm resets the registers it also decides `flags` on every path
            if in_arm and a is not None:
                fkey = key + ":flags"
                ok_f = _assigns_on_all_paths(a["body"], flagsvar)
                res.inst(fkey, True, {"flags_decided_on_every_path": ok_f})
                if not ok_f:
                    res.fail(fkey, facts.where(fn, a["body"]), "optimize(): when `%s` moves past an AsmLine::%s (%s) the registers are reset but `%s` is left as it was on some path: a jump also reaches that label, and `STA v / LDA v` after it is folded on the strength of the fall-through path's flags" % (which, variant, role, flagsvar))
            if not (in_arm or after or fresh):
                res.fail(key, facts.where(fn, lp), "optimize(): when `%s` moves past an AsmLine::%s (%s) the known register contents are kept: code after the %s is optimised as if it could only be reached by falling through" % (
                    which, variant, role, "label" if variant == "Label" else "opaque assembler line"))
    res.note("%d skip loops in optimize(): %s" % (len(found), sorted(roles_seen)))


# ------------------------------------------------------------------ append_code (inlining)


@rule("T-INLINE-COPY", floor=5,
      text="append_code re-emits every instruction of an inlined body with all fields identical to the callee's (mnemonic, cycles, cycles_alt, nb_bytes, protected), changing only label names")
def t_inline_copy(facts, res, tier):
    fn = facts.fn("append_code", "AssemblyCode")
    lits = [n for n in walk(fn["body"]) if n.get("k") == "struct" and n["segs"][-1] == "AsmInstruction"]
    st = facts.structs.get("AsmInstruction")
    if not st:
        raise AnchorMissing("struct AsmInstruction not found")
    fields = [f["name"] for f in st["fields"]]
    res.inst("T-INLINE-COPY:struct", True, {"fields": fields})
    if not lits:
        # clone-and-patch style: `let mut x = inst.clone(); x.dasm_operand = ..;` copies every other field by construction
        patched = {}
        for n in walk(fn["body"]):
            if n.get("k") == "let" and n.get("init") is not None and re.match(r"^\w+\.clone\(\)$", expr_text(n["init"]).replace(" ", "")):
                for nm in re.findall(r"\b([a-z_]\w*)\b", pat_text(n["pat"])):
                    if nm != "mut":
                        patched[nm] = set()
        for n in walk(fn["body"]):
            if n.get("k") in ("assign", "assignop") and n["l"].get("k") == "field":
                b = n["l"]["base"]
                if b.get("k") == "path" and len(b["segs"]) == 1 and b["segs"][0] in patched:
                    patched[b["segs"][0]].add(n["l"]["name"])
        res.note("append_code builds no AsmInstruction literal; clone-and-patch copies: %s" % {k: sorted(v) for k, v in patched.items()})
        for f in fields:
            if f == "dasm_operand":
                continue
            key = "T-INLINE-COPY:%s" % f
            res.inst(key, True, {"field": f, "value": "copied by clone()"})
            for var, changed in patched.items():
                if f in changed:
                    res.fail(key, facts.where(fn), "the cloned instruction's `%s` is overwritten in append_code" % f)
        if not patched:
            res.fail("T-INLINE-COPY:ANCHOR-MISSING", facts.where(fn), "append_code neither builds an AsmInstruction literal nor clones and patches one")
    # a literal bound to a local may be patched afterwards: the value a field ends up with is the last
    # unconditional assignment; an assignment under a condition gives the field two values
    later = {}
    for b in walk(fn["body"]):
        if b.get("k") != "block":
            continue
        st = b.get("stmts", [])
        for i, s0 in enumerate(st):
            if s0.get("k") == "let" and isinstance(s0.get("init"), dict) and s0["init"].get("k") == "struct" and s0["init"]["segs"][-1] == "AsmInstruction" and s0.get("pat", {}).get("k") == "ident":
                var = s0["pat"]["name"]
                unc, cond = {}, {}
                for s1 in st[i + 1:]:
                    if s1.get("k") == "assign" and s1["l"].get("k") == "field" and expr_text(s1["l"]["base"]) == var:
                        unc[s1["l"]["name"]] = expr_text(s1["r"])
                        cond.pop(s1["l"]["name"], None)
                    else:
                        for x in walk(s1):
                            if x.get("k") == "assign" and x["l"].get("k") == "field" and expr_text(x["l"]["base"]) == var:
                                cond.setdefault(x["l"]["name"], []).append(expr_text(x["r"]))
                later[id(s0["init"])] = (unc, cond)
    for lit in lits:
        got = {f["name"]: expr_text(f["e"]) for f in lit["fields"]}
        unc, cond = later.get(id(lit), ({}, {}))
        got.update(unc)
        for f0, vals in cond.items():
            if f0 != "dasm_operand":
                m0 = re.match(r"^(\w+)\.%s(\.clone\(\))?$" % f0, got.get(f0, ""))
                bad = [v for v in vals if not re.match(r"^(\w+)\.%s(\.clone\(\))?$" % f0, v)]
                if not m0 or bad:
                    got[f0] = "%s on some paths, %s on others" % (got.get(f0), " / ".join(vals))
        src = None
        for f in fields:
            if f == "dasm_operand":
                continue
            key = "T-INLINE-COPY:%s" % f
            res.inst(key, True, {"field": f, "value": got.get(f)})
            v = got.get(f, "")
            m = re.match(r"^(\w+)\.%s(\.clone\(\))?$" % f, v)
            if not m:
                if "rest" in lit:
                    continue
                res.fail(key, facts.where(fn, lit), "inlined copy sets `%s: %s` instead of copying the callee instruction's %s" % (f, v, f))
            else:
                src = src or m.group(1)
                if m.group(1) != src:
                    res.fail(key, facts.where(fn, lit), "fields are copied from different instructions")
    # every non-renamed line is cloned as is
    clones = [n for n in walk(fn["body"]) if n.get("k") == "mcall" and n["method"] == "push" and expr_text(n["args"][0]).endswith(".clone()")]
    res.inst("T-INLINE-COPY:clone-rest", True, {"clone_pushes": len(clones)})
    if not clones:
        res.fail("T-INLINE-COPY:clone-rest", facts.where(fn), "lines that need no renaming are not copied unchanged")


@rule("T-INLINE-LABELS", floor=5,
      text="append_code suffixes label definitions and the operands of exactly the mnemonics that take a local label (the six conditional branches and JMP, not JSR) with the same per-expansion suffix, and the label push_code defines after the body is what `.endof` becomes under that renaming; the expansion counter is incremented before each expansion")
def t_inline_labels(facts, res, tier):
    fn = facts.fn("append_code", "AssemblyCode")
    from astlib import inline_local_closures
    fn = dict(fn, body=inline_local_closures(fn["body"]))
    # the new name is the template applied to the old one, whatever the old name looks like
    key = "T-INLINE-LABELS:unconditional"
    nsites = 0
    for n in walk(fn["body"]):
        srcs = []
        if n.get("k") == "call" and expr_text(n["func"]) == "AsmLine::Label" and n.get("args"):
            srcs.append(n["args"][0])
        if n.get("k") == "struct" and n["segs"][-1] == "AsmInstruction":
            for f in n.get("fields", []):
                if f.get("name") == "dasm_operand" and isinstance(f.get("e"), dict) and "format" in expr_text(f["e"]):
                    srcs.append(f["e"])
        if n.get("k") == "assign" and expr_text(n["l"]).endswith(".dasm_operand"):
            srcs.append(n["r"])
        for e in srcs:
            nsites += 1
            x = e
            while isinstance(x, dict) and x.get("k") in ("ref", "block") :
                x = x["e"] if x.get("k") == "ref" else (x["stmts"][-1] if x.get("stmts") else x)
                if x is e:
                    break
            res.inst(key + "#%d" % nsites, True, {"new_name": expr_text(e)[:80]})
            if isinstance(x, dict) and x.get("k") in ("if", "match"):
                res.fail(key, facts.where(fn, n), "append_code chooses the new name of a label by looking at the old one (`%s`): names that keep their spelling are shared by every expansion of the same body, so a nested inline function expanded twice defines its labels twice" % expr_text(e)[:100])
    # label arm
    fmts = [(n, n["args"][0]["v"]) for n in walk(fn["body"]) if n.get("k") == "macro" and n["name"] == "format" and n.get("args") and n["args"][0].get("k") == "lit"]
    tmpls = {t for _, t in fmts}
    res.inst("T-INLINE-LABELS:suffix-template", True, {"templates": sorted(tmpls)})
    if len(tmpls) != 1:
        res.fail("T-INLINE-LABELS:suffix-template", facts.where(fn), "label definitions and label operands are renamed with different templates: %s" % sorted(tmpls))
    tmpl = next(iter(tmpls)) if tmpls else ""
    # the renamed mnemonic set
    renamed = None
    for m in walk(fn["body"]):
        if m.get("k") == "match" and expr_text(m["e"]).endswith(".mnemonic"):
            for arm in m["arms"]:
                pats = arm["pat"]["alts"] if arm["pat"].get("k") == "or" else [arm["pat"]]
                names = {p["segs"][-1] for p in pats if p.get("k") == "path"}
                if names and "format" in expr_text(arm["body"]):
                    renamed = names
    if renamed is None:
        # guard form: `AsmLine::Instruction(inst) if matches!(inst.mnemonic, BEQ | BNE | ..) => { .. format!(..) .. }`
        for m in walk(fn["body"]):
            if m.get("k") == "match":
                for arm in m["arms"]:
                    g = arm.get("guard")
                    if g is not None and "mnemonic" in expr_text(g) and "format" in expr_text(arm["body"]):
                        names = {x for x in re.findall(r"\b([A-Z]{3})\b", expr_text(g)) if x in MN}
                        if names:
                            renamed = names
    if renamed is None:
        # `if let A | B | .. = inst.mnemonic { .. format!(..) .. }` / `if matches!(inst.mnemonic, A | B | ..) { .. }`
        for m in walk(fn["body"]):
            if m.get("k") == "if" and "format" in expr_text(m["then"]) and "mnemonic" in expr_text(m["cond"]):
                c = m["cond"]
                names = set()
                if c.get("k") == "letcond":
                    pats = c["pat"]["alts"] if c["pat"].get("k") == "or" else [c["pat"]]
                    names = {p["segs"][-1] for p in pats if p.get("k") == "path"}
                else:
                    names = {x for x in re.findall(r"\b([A-Z]{3})\b", expr_text(c)) if x in MN}
                if names:
                    renamed = names
    want = set(BRANCHES) | {"JMP"}
    res.inst("T-INLINE-LABELS:renamed-mnemonics", True, {"renamed": sorted(renamed or [])})
    if renamed is None:
        raise AnchorMissing("append_code: mnemonic match with label renaming not found")
    if renamed != want:
        res.fail("T-INLINE-LABELS:renamed-mnemonics", facts.where(fn), "operands are renamed for %s; the mnemonics that take a local label are %s" % (sorted(renamed), sorted(want)))
    # label lines renamed
    key = "T-INLINE-LABELS:label-lines"
    res.inst(key)
    lab_ok = False
    for m in walk(fn["body"]):
        if m.get("k") == "match":
            for arm in m["arms"]:
                if pat_text(arm["pat"]).startswith("AsmLine::Label(") and "format" in expr_text(arm["body"]) and "AsmLine::Label(" in expr_text(arm["body"]):
                    lab_ok = True
    if not lab_ok:
        res.fail(key, facts.where(fn), "label definitions of the inlined body are not renamed")
    # push_code: counter incremented first, end label matches ".endof" + suffix
    pc = facts.fn("push_code", GEN_QUAL)
    stmts = pc["body"]["stmts"]
    key = "T-INLINE-LABELS:counter"
    res.inst(key)
    first = stmts[0] if stmts else {}
    if not (first.get("k") == "assignop" and first["op"] == "+" and expr_text(first["r"]) == "1"):
        res.fail(key, facts.where(pc), "the expansion counter is not incremented before the expansion")
        counter = None
    else:
        counter = expr_text(first["l"])
        others = [n for n in walk(pc["body"]) if n.get("k") in ("assign", "assignop") and expr_text(n["l"]) == counter]
        if len(others) != 1:
            res.fail(key, facts.where(pc), "the expansion counter is written %d times in push_code" % len(others))
        ac = [n for n in walk(pc["body"]) if n.get("k") == "mcall" and n["method"] == "append_code"]
        if len(ac) != 1 or expr_text(ac[0]["args"][-1]) != counter:
            res.fail(key, facts.where(pc), "append_code is not called exactly once with the freshly incremented counter")
    key = "T-INLINE-LABELS:endof"
    ret = facts.fn("generate_return", GEN_QUAL)
    endof = None
    for n in walk(ret["body"]):
        if n.get("k") == "mcall" and n["method"] == "asm" and expr_text(n["args"][0]).endswith("JMP"):
            m = re.search(r'ExprType::Label\("([^"]+)"', expr_text(n["args"][1]))
            if m:
                endof = m.group(1)
    endlab = None
    for n in walk(pc["body"]):
        if n.get("k") == "mcall" and n["method"] == "append_label" and n["args"] and n["args"][0].get("k") == "macro":
            a = n["args"][0]
            if a.get("args") and a["args"][0].get("k") == "lit":
                endlab = (a["args"][0]["v"], expr_text(a["args"][1]) if len(a["args"]) > 1 else None)
    res.inst(key, True, {"return_jumps_to": endof, "renamed_by": tmpl, "push_code_defines": endlab})
    if endof is None or endlab is None:
        res.fail(key, facts.where(pc), "cannot find the inline return jump target or the end label")
    else:
        expect = tmpl.replace("{}", endof, 1)
        if endlab[0] != expect or (counter and endlab[1] != counter):
            res.fail(key, facts.where(pc), "an inlined `return` jumps to `%s` renamed by `%s` = `%s`, but push_code defines `%s`" % (endof, tmpl, expect, endlab[0]))
    # inline flag decides JMP vs RTS in generate_return
    key = "T-INLINE-LABELS:return-kind"
    res.inst(key)
    kind_if = None
    for n in walk(ret["body"]):
        if n.get("k") == "if" and re.match(r"^\w+\.inline$", expr_text(n["cond"]).replace(" ", "")) and n.get("else") is not None:
            kind_if = n
    def emits(b, what):
        return any(x.get("k") == "mcall" and x["method"] in ("asm", "sasm") and x.get("args") and expr_text(x["args"][0]).endswith(what) for x in walk(b))
    if kind_if is None or not emits(kind_if["then"], "JMP") or not emits(kind_if["else"], "RTS") or emits(kind_if["then"], "RTS") or emits(kind_if["else"], "JMP"):
        res.fail(key, facts.where(ret), "generate_return does not choose `JMP .endof` for inline functions and RTS otherwise")
    else:
        # the two ways of leaving differ in nothing but the instruction that leaves: whatever else one arm does
        # (restoring a parked Y, flushing deferred increments) the other must do too, or `inline` changes the final state
        def others(b):
            st = b.get("stmts", []) if b.get("k") == "block" else [b]
            out = []
            for x in st:
                t0 = expr_text(x).replace(" ", "")
                if re.match(r"^self\.(asm|sasm)\((JMP|RTS)\b", t0) and not any(y.get("k") in ("if", "match") for y in walk(x)):
                    continue
                out.append(re.sub(r"\s+", "", expr_text(x)))
            return out
        a, b = others(kind_if["then"]), others(kind_if["else"])
        key2 = "T-INLINE-LABELS:return-siblings"
        res.inst(key2, True, {"inline_arm_also": a, "out_of_line_arm_also": b})
        if a != b:
            res.fail(key2, facts.where(ret, kind_if), "the inline and the out-of-line way of leaving a function do different things besides the JMP / RTS (inline arm: %s; out-of-line arm: %s): a register or state restored in one arm only makes the final state depend on the `inline` keyword" % (a or "nothing else", b or "nothing else"))


# ------------------------------------------------------------------ csleep, protected regions

CSLEEP_ALLOWED = {"NOP", "PHA", "PLA", "STA", "DEC"}


@rule("T-CSLEEP", configs=("default", "atari2600"), floor=9,
      text="for every csleep(n) arm the cycle counts of the emitted instructions (NOP 2, PHA 3, PLA 4, zero-page STA 3, zero-page DEC 5) sum to n; only NOP, a balanced PHA/PLA pair and STA/DEC on the DUMMY location are used; values without an arm are rejected with an error")
def t_csleep(facts, res, tier):
    fn = facts.fn("generate_csleep_statement", GEN_QUAL)
    from walker import norm_ty
    pc = [p["name"] for p in fn["params"] if norm_ty(p["ty"]) in ("i32", "u32", "usize", "i64")]
    if not pc:
        raise AnchorMissing("generate_csleep_statement: integer cycles parameter not found")
    cyc = pc[0]
    default_ok = False
    for kind, value, st in fn_paths(facts, fn):
        allowed, excl = st.cons.get(cyc, (None, frozenset()))
        if allowed is None:
            key = "T-CSLEEP:default"
            res.inst(key, True, {"excluded": sorted(excl)})
            if not is_error_exit(value):
                res.fail(key, facts.where(fn), "csleep values without an arm are not rejected with an error")
            else:
                default_ok = True
            if any(e["kind"] in ("asm", "sasm", "sasm_protected") for e in st.events):
                res.fail(key, facts.where(fn), "the rejecting path emits instructions")
            continue
        for n in sorted(allowed):
            key = "T-CSLEEP:%s" % n
            total = 0
            seq = []
            stack = 0
            ok = True
            for e in st.events:
                if e["kind"] not in ("asm", "sasm", "sasm_protected"):
                    continue
                mnv = e["args"][0]
                mn = mnv.variant if isinstance(mnv, EnumV) else None
                if mn is None or mn not in CSLEEP_ALLOWED:
                    res.fail(key, facts.where(fn, e["node"]), "csleep(%s) emits %s, which is not a pure delay instruction" % (n, mn))
                    ok = False
                    continue
                if e["kind"] == "asm":
                    op = e["args"][1]
                    if not (isinstance(op, EnumV) and op.variant == "Absolute" and isinstance(op.payload[0], Const) and op.payload[0].v == "DUMMY"
                            and isinstance(op.payload[1], Const) and op.payload[1].v is True and isinstance(op.payload[2], Const) and op.payload[2].v == 0):
                        res.fail(key, facts.where(fn, e["node"]), "csleep(%s): %s operates on %r instead of the DUMMY zero-page location" % (n, mn, op))
                        ok = False
                        continue
                    mode = "zp"
                else:
                    mode = "imp"
                if mode not in MN[mn]["cycles"]:
                    res.fail(key, facts.where(fn, e["node"]), "csleep(%s): %s has no %s form" % (n, mn, mode))
                    ok = False
                    continue
                total += MN[mn]["cycles"][mode]
                seq.append(mn)
                if mn == "PHA":
                    stack += 1
                if mn == "PLA":
                    stack -= 1
                    if stack < 0:
                        res.fail(key, facts.where(fn, e["node"]), "csleep(%s): PLA before PHA" % n)
            res.inst(key, True, {"n": n, "sequence": seq, "cycles": total})
            if is_error_exit(value):
                res.fail(key, facts.where(fn), "csleep(%s) has an arm but it returns an error" % n)
            elif ok and total != n:
                res.fail(key, facts.where(fn), "csleep(%s) emits %s = %d cycles" % (n, "+".join(seq), total))
            if stack != 0:
                res.fail(key, facts.where(fn), "csleep(%s): PHA/PLA not balanced" % n)
    if not default_ok:
        res.inst("T-CSLEEP:default")
    res.exhaustive = True


@rule("T-DUMMY-ZP", configs=("atari2600",), floor=1,
      text="the DUMMY location csleep uses is inserted by compile() (atari2600 builds) as a zero-page, 8-bit constant symbol, after parsing so that user code cannot name it")
def t_dummy_zp(facts, res, tier):
    fn = facts.fn("compile", "")
    found = None
    for n in walk(fn["body"]):
        if n.get("k") == "mcall" and n["method"] == "insert" and n["args"] and expr_text(n["args"][0]).startswith('"DUMMY"'):
            found = n
    res.inst("T-DUMMY-ZP:insert")
    if not found:
        kept = [n for n in walk(fn["body"]) if n.get("k") == "mcall" and n["method"] in ("or_insert", "or_insert_with", "or_default") and '"DUMMY"' in expr_text(n["recv"])]
        if kept:
            res.fail("T-DUMMY-ZP:insert", facts.where(fn, kept[0]), "compile() keeps a variable of the program called DUMMY (`entry(..).%s`): csleep's STA DUMMY / DEC DUMMY then operate on that variable, whatever its memory class (a read-modify-write on split-port RAM)" % kept[0]["method"])
        else:
            res.fail("T-DUMMY-ZP:insert", facts.where(fn), "DUMMY variable is not inserted in this configuration")
        return
    lit = found["args"][1]
    f = {x["name"]: expr_text(x["e"]) for x in lit.get("fields", [])}
    if f.get("memory") != "VariableMemory::Zeropage" or f.get("var_type") != "VariableType::Char":
        res.fail("T-DUMMY-ZP:insert", facts.where(fn, found), "DUMMY is declared %s/%s; csleep's cycle counts assume a zero-page byte" % (f.get("memory"), f.get("var_type")))
    # inserted after the parse loop
    stmts = fn["body"]["stmts"]
    idx_ins = [i for i, s in enumerate(stmts) if found in list(walk(s))]
    idx_parse = [i for i, s in enumerate(stmts) if "compile_decl(" in expr_text(s)]
    if not idx_ins or not idx_parse or idx_ins[0] < idx_parse[0]:
        res.fail("T-DUMMY-ZP:insert", facts.where(fn, found), "DUMMY is visible to user code (inserted before parsing)")


# (two exceptions for the STA DUMMY / DEC DUMMY of csleep stood here until round 10; their premise - user code cannot name DUMMY - only
# holds in the atari2600 build: in the default build `char DUMMY; load(DUMMY); csleep(3);` lost the store.  Repaired in the repository, 453fda7.)
PROTECT_EXCEPTIONS = {}


from rules_asm import protecting_wrappers as _protecting_wrappers  # noqa: E402


@rule("T-PROTECT-REGION", floor=8,
      text="every instruction emitted for load(), store(), strobe() and csleep() is emitted with the protected flag set (so that no peephole rule may delete it), and the flag is clear again on every normal exit of the statement generator")
def t_protect_region(facts, res, tier):
    wrappers = {k: v for k, v in _protecting_wrappers(facts).items() if k != "sasm_protected"}
    for w in sorted(wrappers):
        res.inst("T-PROTECT-REGION:wrapper:%s" % w, True, {"body": wrappers[w]})
    for fname in EXPLICIT_STMT_GENERATORS:
        fn = facts.fn(fname, GEN_QUAL)
        seen = set()
        for kind, value, st in fn_paths(facts, fn):
            for e in st.events:
                if e["kind"] == "call" and e.get("callee") in wrappers and e.get("args"):
                    mns = domain_of(st, e["args"][0], facts) or {"?"}
                    opname = ""
                    if len(e["args"]) > 1 and isinstance(e["args"][1], EnumV) and e["args"][1].payload and isinstance(e["args"][1].payload[0], Const):
                        opname = e["args"][1].payload[0].v
                    for mn in sorted(mns):
                        key = "T-PROTECT-REGION:%s:%s%s" % (fname, mn, (":" + opname) if opname else "")
                        if key not in seen:
                            seen.add(key)
                            res.inst(key, True, {"function": fname, "mnemonic": mn, "protected": "through %s" % e["callee"]})
                    continue
                if e["kind"] == "call" and e.get("callee") in ("generate_assign", "generate_arithm", "generate_shift", "generate_plusplus"):
                    # the access itself made through a two-operand step of the generator: its instructions carry the flag as it is now
                    p2 = e.get("protected")
                    key = "T-PROTECT-REGION:%s:via-%s" % (fname, e["callee"])
                    if key not in seen:
                        seen.add(key)
                        res.inst(key, True, {"function": fname, "step": e["callee"], "protected": repr(p2)})
                        if not (isinstance(p2, Const) and p2.v is True):
                            res.fail(key, facts.where(fn, e["node"]), "%s makes its access through %s without setting `protected`: the instructions that step emits can be deleted or merged by the optimiser (`load(P[1]); strobe(P[1]);` loses the STA at -O1)" % (fname, e["callee"]))
                    continue
                if e["kind"] not in ("asm", "sasm", "sasm_protected"):
                    continue
                mnv = e["args"][0]
                mns = domain_of(st, mnv, facts) or {"?"}
                opname = ""
                if e["kind"] == "asm" and isinstance(e["args"][1], EnumV) and e["args"][1].payload and isinstance(e["args"][1].payload[0], Const):
                    opname = e["args"][1].payload[0].v
                p = e["protected"]
                is_prot = isinstance(p, Const) and p.v is True
                for mn in sorted(mns):
                    key = "T-PROTECT-REGION:%s:%s%s" % (fname, mn, (":" + opname) if opname else "")
                    if key in seen:
                        continue
                    seen.add(key)
                    res.inst(key, True, {"function": fname, "mnemonic": mn, "protected": repr(p)})
                    if not is_prot:
                        if (fname, mn, opname) in PROTECT_EXCEPTIONS:
                            res.note("exception %s: %s" % (key, PROTECT_EXCEPTIONS[(fname, mn, opname)]))
                            continue
                        res.fail(key, facts.where(fn, e["node"]), "%s emits %s without setting `protected`: a peephole rule may delete or merge this explicit access" % (fname, mn))
            if not is_error_exit(value):
                p = st.env.get("self.protected")
                key = "T-PROTECT-REGION:%s:exit" % fname
                if key not in seen:
                    seen.add(key)
                    res.inst(key)
                if p is not None and not (isinstance(p, Const) and p.v is False):
                    res.fail(key, facts.where(fn), "%s can return normally with `protected` still set" % fname)
    # sasm_protected itself
    sp = facts.fn("sasm_protected", GEN_QUAL)
    t = [expr_text(s) for s in sp["body"]["stmts"]]
    key = "T-PROTECT-REGION:sasm_protected"
    res.inst(key, True, {"body": t})
    if not (t and t[0] == "self.protected=true" and any(x == "self.protected=false" for x in t[1:]) and any("self.asm(" in x for x in t)):
        res.fail(key, facts.where(sp), "sasm_protected does not bracket the emission with protected = true / false")
    # asm() copies self.protected into the instruction
    rows, params, afn = __import__("genmodel").asm_table(facts)
    key = "T-PROTECT-REGION:asm-copies-flag"
    res.inst(key)
    bad = [r for r in rows if r["kind"] == "ok" and not (isinstance(r.get("protected"), Sym) and r["protected"].key.startswith("self.protected"))]
    if bad:
        res.fail(key, facts.where(afn), "asm() does not store the generator's `protected` flag in the emitted instruction on every path")


@rule("T-OPT-PEEK", floor=3,
      text="the peephole look-ahead of optimize() examines every line it obtains from the multipeek cursor: each `peek()` result is bound and matched by an `if let`; a `peek()` that only decides a loop condition advances the look-ahead cursor past the first line that ends the loop, so a line (possibly a flag-using branch) is skipped unexamined - and the optimiser's decisions then depend on whether listing comments are present")
def t_opt_peek(facts, res, tier):
    fn = facts.fn("optimize", "AssemblyCode")
    peeks = [n for n in walk(fn["body"]) if n.get("k") == "mcall" and n["method"] == "peek"]
    res.inst("T-OPT-PEEK:sites", True, {"peek_calls": len(peeks)})
    if len(peeks) < 2:
        raise AnchorMissing("optimize(): look-ahead `peek()` calls not found")
    owners = {}
    for n in walk(fn["body"]):
        k = n.get("k")
        if k == "if" and n["cond"].get("k") == "letcond":
            for p in walk(n["cond"]["e"]):
                if p in peeks:
                    owners[id(p)] = "if-let"
        elif k == "while":
            for p in walk(n["cond"]):
                if p in peeks:
                    owners[id(p)] = "while"
        elif k == "match":
            for p in walk(n["e"]):
                if p in peeks:
                    owners.setdefault(id(p), "match")
        elif k == "macro" and n.get("name") == "matches" and n.get("pat") is not None and isinstance(n.get("e"), dict):
            # `matches!(iter.peek(), Some(..) if ..)`: the line obtained is matched against a pattern
            for p in walk(n["e"]):
                if p in peeks:
                    owners.setdefault(id(p), "match")
    # (cursor) a look-ahead starts at the line after `second`: the first peek of a chain is reached only with the multipeek
    # cursor reset - every earlier peek of the same iteration is followed, unconditionally, by reset_peek() or next()
    par = {}

    def _rec(n, pp, key, idx):
        if isinstance(n, dict):
            par[id(n)] = (pp, key, idx)
            for k2, v in n.items():
                if k2 in ("loc", "pat"):
                    continue
                if isinstance(v, dict):
                    _rec(v, n, k2, None)
                elif isinstance(v, list):
                    for j, x in enumerate(v):
                        if isinstance(x, dict):
                            _rec(x, n, k2, j)
    _rec(fn["body"], None, None, None)

    def _resets(st):
        e = st
        while isinstance(e, dict) and e.get("k") in ("try", "paren"):
            e = e["e"]
        if isinstance(e, dict) and e.get("k") == "mcall" and e["method"] == "reset_peek":
            return True
        if isinstance(e, dict) and e.get("k") in ("assign", "let"):
            r = e.get("r") if e.get("k") == "assign" else e.get("init")
            return isinstance(r, dict) and r.get("k") == "mcall" and r["method"] == "next" and "iter" in expr_text(r["recv"])
        return False

    def _reset_follows(x, stop):
        """inside `stop`: some block on the way up from x has a reset among the statements after the one holding x"""
        q2 = x
        while q2 is not None and q2 is not stop:
            pq2, kq2, iq2 = par.get(id(q2), (None, None, None))
            if pq2 is not None and pq2.get("k") == "block" and kq2 == "stmts" and any(_resets(y) for y in pq2["stmts"][iq2 + 1:]):
                return True
            q2 = pq2
        return False

    heads = 0
    for i, p in enumerate(peeks):
        # a continuation: lexically inside the consequence of another peek
        q, cont = p, False
        while q is not None:
            pq, kq, iq = par.get(id(q), (None, None, None))
            if pq is not None and pq.get("k") == "if" and kq == "then" and any(x in peeks for x in walk(pq["cond"])):
                cont = True
            q = pq
        if cont:
            continue
        heads += 1
        key = "T-OPT-PEEK:cursor:%d" % heads
        bad = None
        q = p
        while q is not None and bad is None:
            pq, kq, iq = par.get(id(q), (None, None, None))
            if pq is not None and pq.get("k") == "block" and kq == "stmts":
                stmts = pq["stmts"]
                for j in range(iq - 1, -1, -1):
                    if _resets(stmts[j]):
                        break
                    inner = [x for x in walk(stmts[j]) if x in peeks]
                    if inner and not all(_reset_follows(x, stmts[j]) for x in inner):
                        bad = stmts[j]
                        break
                else:
                    q = pq
                    continue
                break
            if pq is not None and pq.get("k") in ("loop", "while", "for"):
                break
            q = pq
        res.inst(key, True, {"starts_a_look_ahead": True, "earlier_peek_without_reset": bad is not None})
        if bad is not None:
            res.fail("T-OPT-PEEK:cursor", facts.where(fn, p), "optimize(): this look-ahead starts with `peek()` although an earlier `peek()` of the same iteration (line %s) is not followed by reset_peek() / next(): it examines the line *after* the one it means, and deletes a load whose flags the branch in between needs" % str(bad.get("loc", "?")).split(":")[0])
    for i, p in enumerate(peeks):
        how = owners.get(id(p), "unbound")
        key = "T-OPT-PEEK:%d:%s" % (i, how)
        res.inst(key, True, None)
        if how not in ("if-let", "match"):
            res.fail("T-OPT-PEEK:%s" % how, facts.where(fn, p), "optimize(): a look-ahead `peek()` is used as a %s condition: every call advances the multipeek cursor, so the line that ends the loop is consumed without being examined and the next check looks one line too far" % how)
