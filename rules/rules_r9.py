"""Rules added after the ninth round of independently seeded changes."""
import re

from astlib import walk, expr_text, pat_text, AnchorMissing
from core import rule
import genmodel


# ----------------------------------------------------------------------------- C01 (sequence points)
#
# A postfix ++/-- is not emitted where it is met: generate_expr pushes it on `deferred_plusplus` and
# someone has to apply ("purge") the list.  C fixes the latest point where that may happen: the end
# of the full expression, the comma, the call (after the arguments), the first operand of && || ?:,
# and - because the side effect belongs to the evaluation, not to one of its outcomes - before
# control can leave the evaluation along one branch only.

PURGES = ("purge_deferred_plusplus", "purge_deferred_plusplus_and_savey", "purge_alternative_plusplus")
BRANCHES = {"JMP", "JSR", "BEQ", "BNE", "BCC", "BCS", "BMI", "BPL", "BVC", "BVS"}
LEAVING_CALLS = ("label", "push_code", "generate_condition_ex", "generate_condition_16bits",
                 "generate_branch_instruction", "generate_branch_instruction_alt")
EMITTERS = ("asm", "sasm", "sasm_protected", "label", "push_code", "inline")


def _self_call(n, names=None):
    return (isinstance(n, dict) and n.get("k") == "mcall" and n["recv"].get("k") == "path" and n["recv"]["segs"] == ["self"]
            and (names is None or n["method"] in names))


def _unwrap_try(n):
    while isinstance(n, dict) and n.get("k") in ("try", "paren"):
        n = n["e"]
    return n


def _is_purge_stmt(s):
    """`self.purge_*()?;` or `if !self.deferred_plusplus.is_empty() { ..; self.purge_*()?; }`"""
    c = _unwrap_try(s)
    if _self_call(c, PURGES):
        return True
    if isinstance(s, dict) and s.get("k") == "if" and s.get("else") is None:
        ct = expr_text(s["cond"]).replace(" ", "")
        if "deferred_plusplus.is_empty()" in ct and ct.startswith("!") or ct.startswith("(!"):
            return any(_is_purge_stmt(x) for x in (s["then"].get("stmts") or []))
    return False


def _leaving(n):
    """Does this call emit something after which control may be elsewhere (a label, a jump, a branch, a return)?"""
    if not _self_call(n):
        return None
    m = n["method"]
    if m in LEAVING_CALLS:
        return m
    if m == "asm" and n.get("args"):
        a0 = n["args"][0]
        if a0.get("k") == "path" and a0["segs"][-1] in BRANCHES:
            return a0["segs"][-1]
        if a0.get("k") != "path" or a0["segs"][-1][0].islower():
            # a computed mnemonic: a branch unless the operand is visibly not a label
            if len(n["args"]) > 1 and "Label" in expr_text(n["args"][1]):
                return "branch"
    if m == "sasm" and n.get("args") and n["args"][0].get("k") == "path" and n["args"][0]["segs"][-1] in ("RTS", "RTI"):
        return n["args"][0]["segs"][-1]
    return None


def _emitting(n):
    if not _self_call(n):
        return None
    m = n["method"]
    if m in EMITTERS or (m.startswith("generate_") and m != "generate_included_source_code_line"):
        return m
    return None


def _parents(body):
    par = {}

    def rec(n, p, key, idx):
        if isinstance(n, dict):
            par[id(n)] = (p, key, idx)
            for k, v in n.items():
                if k in ("loc", "pat"):
                    continue
                if isinstance(v, dict):
                    rec(v, n, k, None)
                elif isinstance(v, list):
                    for i, x in enumerate(v):
                        if isinstance(x, dict):
                            rec(x, n, k, i)
    rec(body, None, None, None)
    return par


def _after(node, par):
    """The pieces of code evaluated after `node` on a normal path of its function, in order, as
    (statement, same_iteration): later statements of every enclosing block, the arms / branches
    of a match / if whose scrutinee / condition contains the node."""
    cur = node
    while True:
        p, key, idx = par.get(id(cur), (None, None, None))
        if p is None:
            return
        k = p.get("k")
        if k == "block" and key == "stmts":
            for s in p["stmts"][idx + 1:]:
                yield s
        elif k == "match" and key == "e":
            for a in p["arms"]:
                yield a["body"]
        elif k == "if" and key == "cond":
            yield p["then"]
            if p.get("else") is not None:
                yield p["else"]
        elif k == "closure":
            return
        cur = p


def _first_after(node, par, what):
    """Scan the code after `node`: -> ('purge', stmt) | ('hit', call, name) | None.
    A purge only counts as a statement of its own (not nested in a condition other than the
    emptiness test), `what(call)` names the calls looked for."""
    for s in _after(node, par):
        if _is_purge_stmt(s):
            return ("purge", s, None)
        for x in walk(s):
            nm = what(x)
            if nm:
                return ("hit", x, nm)
    return None


def _arg_text(c):
    return expr_text(c["args"][0]).replace(" ", "").lstrip("&") if c.get("args") else "?"


@rule("T-SEQ-POINT", floor=12,
      text="a postfix ++/-- is queued on `deferred_plusplus` by generate_expr and takes effect when the queue is purged.  Decided: "
           "(discard) wherever the generator evaluates an expression for its side effects only (`self.generate_expr(..)?;` as a statement: the "
           "expression statement, the left operand of a comma, the init and update of a for, each argument assignment of a call), the next thing it "
           "does that emits code is a purge; (leave) between any direct call of generate_expr and a later label, jump, branch, JSR, RTS or inline "
           "expansion emitted by the same function there is a purge - otherwise the side effect happens on one of the paths only, or after the callee "
           "ran, or never; (condition) the one function exempt from (leave), the comparison-and-branch emitter, is called by its wrapper only, and the "
           "wrapper applies what the operands left pending on the fall-through path and on the taken path (two emission loops separated by the "
           "definition of the local taken label, the taken path then jumps to the caller's label), unless the condition is compound (each operand then "
           "passes through the wrapper itself) or has no postfix ++/-- at all (has_post_incdec, a match over Expr without catch-all arm whose `false` "
           "arms bind no sub-expression).  Not decided: that the purge emits the right instruction")
def t_seq_point(facts, res, tier):
    fns = genmodel.gen_fns(facts)
    purgers = [f for f in fns if f["name"] in PURGES]
    if len(purgers) < 2:
        raise AnchorMissing("purge functions of deferred_plusplus not found (%s)" % [f["name"] for f in purgers])
    for f in purgers:
        t = expr_text(f["body"])
        if "deferred_plusplus" not in t and not any(_self_call(x, PURGES) for x in walk(f["body"])):
            raise AnchorMissing("%s does not touch deferred_plusplus" % f["name"])
    # who queues: generate_expr only
    for f in fns:
        for x in walk(f["body"]):
            if x.get("k") == "mcall" and x["method"] == "push" and "deferred_plusplus" in expr_text(x["recv"]) and f["name"] != "generate_expr":
                res.fail("T-SEQ-POINT:queue:%s" % f["name"], facts.where(f, x), "%s queues a ++/-- outside generate_expr: the sites that must purge are derived from the calls of generate_expr" % f["name"])
    # the comparison-and-branch emitter and its wrapper
    simple = [f for f in fns if any(p.get("name") == "immediate_special" for p in f["params"])]
    wrapper = None
    inner = None
    for f in simple:
        if any(_self_call(x, ("generate_expr",)) for x in walk(f["body"])):
            inner = f
        else:
            wrapper = f
    if inner is None or wrapper is None:
        raise AnchorMissing("condition emitter / wrapper pair not found among %s" % [f["name"] for f in simple])
    n_sites = 0
    for f in fns:
        par = None
        seen = {}
        for c in walk(f["body"]):
            if not _self_call(c, ("generate_expr",)):
                continue
            if par is None:
                par = _parents(f["body"])
            n_sites += 1
            arg = _arg_text(c)
            # the statement the call sits in
            top = c
            p, key, idx = par[id(top)]
            while p is not None and p.get("k") in ("try", "paren"):
                top = p
                p, key, idx = par[id(top)]
            discarded = p is not None and p.get("k") == "block" and key == "stmts" and (top.get("semi") or top is not p["stmts"][-1]) and top.get("k") == "try" and top.get("semi")
            # the innermost enclosing match arm names the case being generated
            armp = None
            q = c
            while q is not None and armp is None:
                pq, kq, _ = par.get(id(q), (None, None, None))
                if pq is not None and kq == "arms":
                    armp = pat_text(q["pat"]).replace(" ", "")[:40]
                q = pq
            base = "T-SEQ-POINT:%s:%s%s" % (f["name"], (armp + ":") if armp else "", arg)
            k = seen.get(base, 0)
            seen[base] = k + 1
            if k:
                base += "#%d" % (k + 1)
            if discarded:
                r = _first_after(top, par, _emitting)
                ok = r is not None and r[0] == "purge"
                res.inst(base + ":discard", True, {"function": f["name"], "expression": arg, "then": "purge" if ok else (r[2] if r else "end of function")})
                if not ok:
                    res.fail(base + ":discard", facts.where(f, c),
                             "%s evaluates `%s` for its side effects only and then %s without applying the pending postfix ++/--: they take effect "
                             "after the sequence point (after the comma, inside the next clause of the for, after the callee ran)" % (
                                 f["name"], arg, ("emits code through %s" % r[2]) if r else "returns"))
                continue
            if f is inner:
                res.inst(base + ":condition", True, {"function": f["name"], "expression": arg, "discipline": "called by %s only" % wrapper["name"]})
                continue
            r = _first_after(top, par, _leaving)
            if r is None or r[0] == "purge":
                res.inst(base + ":leave", True, {"function": f["name"], "expression": arg, "then": "purge" if r else "nothing that leaves"})
            else:
                res.inst(base + ":leave", True, {"function": f["name"], "expression": arg, "then": r[2]})
                res.fail(base + ":leave", facts.where(f, c),
                         "%s evaluates `%s` and later emits %s while a postfix ++/-- of the expression may still be pending: it then takes effect on one "
                         "of the paths only, or after control has left" % (f["name"], arg, r[2]))
    # (condition) who may call the emitter
    for f in fns:
        for x in walk(f["body"]):
            if _self_call(x, (inner["name"],)) and f is not wrapper:
                res.fail("T-SEQ-POINT:condition:caller:%s" % f["name"], facts.where(f, x),
                         "%s calls %s directly: the postfix ++/-- of the operands are then applied on the fall-through path only" % (f["name"], inner["name"]))
    _check_wrapper(facts, res, wrapper, inner)
    res.note("%d generate_expr call sites" % n_sites)


def _check_wrapper(facts, res, w, inner):
    key = "T-SEQ-POINT:condition:%s" % w["name"]
    label_param = None
    for p in w["params"]:
        if p.get("name") == "label":
            label_param = "label"
    if label_param is None:
        raise AnchorMissing("%s has no `label` parameter" % w["name"])
    stmts = w["body"].get("stmts") or []
    calls = [(i, x) for i, s in enumerate(stmts) for x in walk(s) if _self_call(x, (inner["name"],))]
    res.inst(key, True, {"wrapper": w["name"], "emitter": inner["name"], "calls": len(calls)})
    if len(calls) != 2:
        raise AnchorMissing("%s: expected the direct and the protected call of %s, found %d" % (w["name"], inner["name"], len(calls)))
    (i0, direct), (i1, prot) = calls
    # the direct call: under `compound || !has_post_incdec(condition)`
    s0 = stmts[i0]
    ok = s0.get("k") == "if" and any(x is direct for x in walk(s0["then"]))
    disj = []
    if ok:
        def split(e):
            e2 = e
            while e2.get("k") == "paren":
                e2 = e2["e"]
            if e2.get("k") == "binary" and e2["op"] == "||":
                return split(e2["l"]) + split(e2["r"])
            return [e2]
        disj = [expr_text(x).replace(" ", "") for x in split(s0["cond"])]
    cond_param = expr_text(direct["args"][0]).replace(" ", "") if direct.get("args") else "?"
    want_np = "!has_post_incdec(%s)" % cond_param
    others = [d for d in disj if d != want_np]
    if not ok or want_np not in disj:
        res.fail(key + ":direct", facts.where(w, direct), "%s hands the condition to %s with the caller's label without having excluded a postfix ++/-- in it (`%s` is not among the guards: %s)" % (w["name"], inner["name"], want_np, disj))
    for d in others:
        # must be a local bound to matches!(condition, Expr::Not(_) | Expr::BinOp { op: Land | Lor, .. })
        bound = None
        for s in stmts[:i0]:
            if s.get("k") == "let" and s["pat"].get("k") == "ident" and s["pat"]["name"] == d:
                bound = s["init"]
        good = False
        if bound is not None and bound.get("k") == "macro" and bound.get("name") == "matches" and bound.get("pat") is not None and bound.get("guard") is None:
            alts = bound["pat"].get("alts") if bound["pat"].get("k") == "or" else [bound["pat"]]
            good = expr_text(bound["e"]).replace(" ", "") == cond_param
            for a in alts:
                t = pat_text(a).replace(" ", "")
                if re.match(r"^Expr::Not\(_\)$", t):
                    continue
                if a.get("k") == "struct" and a["segs"][-1] == "BinOp":
                    ops = [fl for fl in a.get("fields", []) if fl.get("name") == "op"]
                    if len(ops) == 1:
                        op = ops[0].get("pat") or {}
                        oalts = op.get("alts") if op.get("k") == "or" else [op]
                        if all(pat_text(o).replace(" ", "") in ("Operation::Land", "Operation::Lor") for o in oalts):
                            continue
                good = False
        res.inst(key + ":guard:" + d, True, {"guard": d})
        if not good:
            res.fail(key + ":guard:" + d, facts.where(w, s0), "%s skips the both-paths protocol under `%s`, which is not the test for a compound condition (!, &&, ||: the only conditions whose operands pass through %s again)" % (w["name"], d, w["name"]))
    # the protected call: local label, then split_off(before), loop, [jump, label taken, loop, jump label, label]
    larg = None
    for a in prot.get("args", []):
        t = expr_text(a).replace(" ", "").lstrip("&")
        if t.endswith("_label"):
            larg = t
    if larg is None or larg == label_param:
        res.fail(key + ":protected", facts.where(w, prot), "%s: the protected call of %s does not branch to a label of its own" % (w["name"], inner["name"]))
        return
    seq = []  # ordered events after the protected call
    before_ok = False
    for s in stmts[:i1]:
        if s.get("k") == "let" and expr_text(s.get("init") or {}).replace(" ", "") == "self.deferred_plusplus.len()":
            before_name = s["pat"].get("name")
            before_ok = True
    for s in stmts[i1 + 1:]:
        for x in walk(s):
            if x.get("k") == "mcall" and x["method"] == "split_off" and "deferred_plusplus" in expr_text(x["recv"]):
                seq.append(("split", expr_text(x["args"][0]).replace(" ", "")))
            elif x.get("k") == "for" and any(_self_call(y, ("generate_plusplus",)) for y in walk(x["body"])):
                seq.append(("apply", expr_text(x["iter"]).replace(" ", "").lstrip("&")))
            elif _self_call(x, ("label",)):
                seq.append(("label", expr_text(x["args"][0]).replace(" ", "").lstrip("&")))
            elif _self_call(x, ("asm",)) and x["args"][0].get("k") == "path" and x["args"][0]["segs"][-1] == "JMP":
                t = expr_text(x["args"][1]).replace(" ", "")
                m = re.search(r"Label\((\w+)", t)
                seq.append(("jmp", m.group(1) if m else t))
    kinds = [k for k, _ in seq]
    res.inst(key + ":protocol", True, {"sequence": ["%s %s" % kv for kv in seq]})
    problems = []
    if not before_ok or ("split", before_name if before_ok else "") not in seq:
        problems.append("the pending list is not cut at its length before the operands were evaluated")
    try:
        i_split = kinds.index("split")
        i_lab = seq.index(("label", larg))
        applies = [i for i, k in enumerate(kinds) if k == "apply"]
        if not any(i_split < i < i_lab for i in applies):
            problems.append("nothing is applied on the fall-through path")
        i_jl = seq.index(("jmp", label_param))
        if not any(i_lab < i < i_jl for i in applies):
            problems.append("nothing is applied on the taken path before it jumps to the caller's label")
        skip = [v for k, v in seq[i_split:i_lab] if k == "jmp"]
        if len(skip) != 1 or ("label", skip[0]) not in seq[i_jl:]:
            problems.append("the fall-through path does not jump over the taken path to a label defined after it")
        # the two loops iterate the same list
        its = {seq[i][1] for i in applies}
        if len(its) != 1:
            problems.append("the two paths apply different lists (%s)" % sorted(its))
    except ValueError:
        problems.append("taken label `%s` / jump to the caller's label not found after the protected call" % larg)
    for pr in problems:
        res.fail(key + ":protocol", facts.where(w, prot), "%s: %s" % (w["name"], pr))
    # has_post_incdec
    h = [f for f in facts.fns if f["name"] == "has_post_incdec"]
    if len(h) != 1:
        raise AnchorMissing("has_post_incdec not found")
    h = h[0]
    hm = [m for m in walk(h["body"]) if m.get("k") == "match"]
    if len(hm) != 1:
        raise AnchorMissing("has_post_incdec: one match expected")
    variants = set(facts.enum_variants("Expr"))
    covered = set()
    for arm in hm[0]["arms"]:
        p = arm["pat"]
        alts = p.get("alts") if p.get("k") == "or" else [p]
        body = expr_text(arm["body"]).replace(" ", "")
        hkey = "T-SEQ-POINT:has_post_incdec:%s" % pat_text(p).replace(" ", "")[:60]
        res.inst(hkey, True, {"returns": body[:60]})
        for a in alts:
            if a.get("k") in ("wild", "ident") and a.get("name", "_") not in variants:
                res.fail(hkey, facts.where(h, arm["body"]), "has_post_incdec has a catch-all arm: a new kind of expression is taken to have no postfix ++/--")
                continue
            v = (a.get("segs") or ["?"])[-1]
            covered.add(v)
            names = [b for b in re.findall(r"\b[a-z_][a-z0-9_]*\b", pat_text(a)) if b not in ("true", "false", "_", "ref", "mut")]
            post = v in ("PlusPlus", "MinusMinus") and pat_text(a).replace(" ", "").endswith(",true)")
            if post and body != "true":
                res.fail(hkey, facts.where(h, arm["body"]), "has_post_incdec answers `%s` for a postfix ++/--" % body)
            if body == "false" and v not in ("Nothing", "Integer", "Sizeof", "Type", "TmpId"):
                res.fail(hkey, facts.where(h, arm["body"]), "has_post_incdec answers false for Expr::%s without looking at its operands" % v)
            if not post and body != "false":
                for nm in names:
                    if not re.search(r"has_post_incdec\(%s\)" % nm, body):
                        res.fail(hkey, facts.where(h, arm["body"]), "has_post_incdec does not look into operand `%s` of Expr::%s" % (nm, v))
    if variants - covered:
        res.fail("T-SEQ-POINT:has_post_incdec:coverage", facts.where(h), "has_post_incdec does not name Expr variants %s" % sorted(variants - covered))
